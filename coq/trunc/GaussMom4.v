(* Third and fourth moments of a multivariate Gaussian as ITERATED improper Riemann integrals:
     int_{R^D} prod_{i<=3,4} (l_i.x + l_i0) exp(-x'Lx/2 + nu'x + c) dx = (Isserlis / Wick sum) * exp(gvalR D L nu + c),
   by induction on D: eliminating one variable from a product of 3 (4) affine forms leaves a sum of products of
   3 and 1 (4, 2 and 0) reduced affine forms. *)
From Coq Require Import Reals Lra Lia.
From Coquelicot Require Import Coquelicot.
From GT Require Import TruncGen C20_proofs GaussInt GaussND GaussMom.
Open Scope R_scope.

(* ------------------------------------------------------------------ *)
(* 1. decay of t^n * Gaussian kernel                                   *)
(* ------------------------------------------------------------------ *)
Lemma lim_xn_expc n c : 0 < c -> is_lim (fun x => x ^ (S n) * exp (- (c * (x * x)))) p_infty 0.
Proof.
intros Hc0.
assert (Hn : 0 < INR (S n)) by (apply lt_0_INR; lia).
assert (Hc : 0 < c / INR (S n)) by (apply Rdiv_lt_0_compat; lra).
apply (is_lim_ext (fun x => (x * exp (- (c / INR (S n) * (x * x)))) ^ (S n))).
- intros x. rewrite Rpow_mult_distr. f_equal. rewrite <- exp_pow_nat. f_equal. field. lra.
- replace (Finite 0) with (Finite (0 ^ (S n))) by (f_equal; simpl; ring).
  apply is_lim_pow. apply lim_x_exp; auto.
Qed.

Lemma lim_tn_gq_p n a b c : 0 < a -> is_lim (fun t => t ^ (S n) * gq a b c t) p_infty 0.
Proof.
intros Ha.
assert (Hc : 0 < a / 4) by lra.
apply (is_lim_0_squeeze _ (fun t => exp (b * b / a + c) * (t ^ (S n) * exp (- (a / 4 * (t * t)))))).
- exists 0. intros t Ht.
  replace (exp (b * b / a + c) * (t ^ (S n) * exp (- (a / 4 * (t * t)))))
    with (t ^ (S n) * (exp (b * b / a + c) * exp (- (a / 4 * (t * t))))) by ring.
  generalize (gq_pos a b c t) (gq_bound a b c t Ha) (pow_lt t (S n) Ht).
  generalize (gq a b c t) (exp (b * b / a + c) * exp (- (a / 4 * (t * t)))) (t ^ (S n)).
  intros u v p Hu Huv Hp. split; nra.
- replace (Finite 0) with (Rbar_mult (exp (b * b / a + c)) 0) by (simpl; f_equal; ring).
  apply is_lim_scal_l. apply lim_xn_expc. exact Hc.
Qed.

Lemma lim_tn_gq_m n a b c : 0 < a -> is_lim (fun t => t ^ (S n) * gq a b c t) m_infty 0.
Proof.
intros Ha. apply is_lim_m_of_p.
apply (is_lim_ext (fun t => (-1) ^ (S n) * (t ^ (S n) * gq a (- b) c t))).
- intros t. rewrite gq_neg. replace (- t) with (-1 * t) by ring. rewrite Rpow_mult_distr. ring.
- replace (Finite 0) with (Rbar_mult ((-1) ^ (S n)) 0) by (simpl; f_equal; ring).
  apply is_lim_scal_l. apply lim_tn_gq_p. exact Ha.
Qed.

Lemma lim_t2_gq_p a b c : 0 < a -> is_lim (fun t => t * t * gq a b c t) p_infty 0.
Proof.
intros Ha. apply (is_lim_ext (fun t => t ^ 2 * gq a b c t)); [ intros t; simpl; ring | apply lim_tn_gq_p; exact Ha ].
Qed.
Lemma lim_t2_gq_m a b c : 0 < a -> is_lim (fun t => t * t * gq a b c t) m_infty 0.
Proof.
intros Ha. apply (is_lim_ext (fun t => t ^ 2 * gq a b c t)); [ intros t; simpl; ring | apply lim_tn_gq_m; exact Ha ].
Qed.
Lemma lim_t3_gq_p a b c : 0 < a -> is_lim (fun t => t * t * t * gq a b c t) p_infty 0.
Proof.
intros Ha. apply (is_lim_ext (fun t => t ^ 3 * gq a b c t)); [ intros t; simpl; ring | apply lim_tn_gq_p; exact Ha ].
Qed.
Lemma lim_t3_gq_m a b c : 0 < a -> is_lim (fun t => t * t * t * gq a b c t) m_infty 0.
Proof.
intros Ha. apply (is_lim_ext (fun t => t ^ 3 * gq a b c t)); [ intros t; simpl; ring | apply lim_tn_gq_m; exact Ha ].
Qed.

(* ------------------------------------------------------------------ *)
(* 2. one-dimensional third and fourth moments                         *)
(* ------------------------------------------------------------------ *)
Lemma t2gq_derive a b c (t : R) :
  is_derive (fun s => s * s * gq a b c s) t ((2 * t + b * t * t - a * t * t * t) * gq a b c t).
Proof.
unfold gq. auto_derive; auto. unfold Rdiv.
generalize (exp (- (a * t * t) * / 2 + b * t + c)). intros e. field.
Qed.

Lemma t3gq_derive a b c (t : R) :
  is_derive (fun s => s * s * s * gq a b c s) t ((3 * t * t + b * t * t * t - a * t * t * t * t) * gq a b c t).
Proof.
unfold gq. auto_derive; auto. unfold Rdiv.
generalize (exp (- (a * t * t) * / 2 + b * t + c)). intros e. field.
Qed.

Lemma cont_dt2gq a b c (t : R) : continuous (fun s => (2 * s + b * s * s - a * s * s * s) * gq a b c s) t.
Proof.
apply (ex_derive_continuous (fun s => (2 * s + b * s * s - a * s * s * s) * gq a b c s)). unfold gq. auto_derive; auto.
Qed.

Lemma cont_dt3gq a b c (t : R) :
  continuous (fun s => (3 * s * s + b * s * s * s - a * s * s * s * s) * gq a b c s) t.
Proof.
apply (ex_derive_continuous (fun s => (3 * s * s + b * s * s * s - a * s * s * s * s) * gq a b c s)).
unfold gq. auto_derive; auto.
Qed.

Lemma gauss_1d_d2 a b c : 0 < a ->
  is_RInt_gen (fun t => (2 * t + b * t * t - a * t * t * t) * gq a b c t) (Rbar_locally m_infty) (Rbar_locally p_infty) 0.
Proof.
intros Ha. replace 0 with (0 - 0) by ring.
apply (is_RInt_gen_derive_line (fun t => t * t * gq a b c t)).
- intros t. apply t2gq_derive.
- intros t. apply cont_dt2gq.
- apply lim_t2_gq_m. exact Ha.
- apply lim_t2_gq_p. exact Ha.
Qed.

Lemma gauss_1d_d3 a b c : 0 < a ->
  is_RInt_gen (fun t => (3 * t * t + b * t * t * t - a * t * t * t * t) * gq a b c t)
              (Rbar_locally m_infty) (Rbar_locally p_infty) 0.
Proof.
intros Ha. replace 0 with (0 - 0) by ring.
apply (is_RInt_gen_derive_line (fun t => t * t * t * gq a b c t)).
- intros t. apply t3gq_derive.
- intros t. apply cont_dt3gq.
- apply lim_t3_gq_m. exact Ha.
- apply lim_t3_gq_p. exact Ha.
Qed.

(* 1-D: third moment *)
Theorem gauss_1d_t3 a b c : 0 < a ->
  is_RInt_gen (fun t => t * t * t * gq a b c t) (Rbar_locally m_infty) (Rbar_locally p_infty)
              ((3 * (b / a) / a + (b / a) ^ 3) * exp (ln (2 * PI / a) / 2 + b * b / (2 * a) + c)).
Proof.
intros Ha.
pose proof (is_RInt_gen_scal _ (2 / a) _ (gauss_1d_t a b c Ha)) as H1.
pose proof (is_RInt_gen_scal _ (b / a) _ (gauss_1d_tt a b c Ha)) as H2.
pose proof (is_RInt_gen_scal _ (- / a) _ (gauss_1d_d2 a b c Ha)) as H3.
pose proof (is_RInt_gen_plus _ _ _ _ (is_RInt_gen_plus _ _ _ _ H1 H2) H3) as H4.
replace ((3 * (b / a) / a + (b / a) ^ 3) * exp (ln (2 * PI / a) / 2 + b * b / (2 * a) + c))
  with (plus (plus (scal (2 / a) (b / a * exp (ln (2 * PI / a) / 2 + b * b / (2 * a) + c)))
                   (scal (b / a) ((/ a + (b / a) * (b / a)) * exp (ln (2 * PI / a) / 2 + b * b / (2 * a) + c))))
             (scal (- / a) 0)).
- revert H4. apply is_RInt_gen_ext_eq_line. intros t.
  unfold plus, scal; simpl. unfold mult; simpl. unfold gq.
  generalize (exp (- (a * t * t) / 2 + b * t + c)). intros e. field. lra.
- unfold plus, scal; simpl. unfold mult; simpl. field. lra.
Qed.
Print Assumptions gauss_1d_t3.

(* 1-D: fourth moment *)
Theorem gauss_1d_t4 a b c : 0 < a ->
  is_RInt_gen (fun t => t * t * t * t * gq a b c t) (Rbar_locally m_infty) (Rbar_locally p_infty)
              ((3 / (a * a) + 6 * (b / a) ^ 2 / a + (b / a) ^ 4) * exp (ln (2 * PI / a) / 2 + b * b / (2 * a) + c)).
Proof.
intros Ha.
pose proof (is_RInt_gen_scal _ (3 / a) _ (gauss_1d_tt a b c Ha)) as H1.
pose proof (is_RInt_gen_scal _ (b / a) _ (gauss_1d_t3 a b c Ha)) as H2.
pose proof (is_RInt_gen_scal _ (- / a) _ (gauss_1d_d3 a b c Ha)) as H3.
pose proof (is_RInt_gen_plus _ _ _ _ (is_RInt_gen_plus _ _ _ _ H1 H2) H3) as H4.
replace ((3 / (a * a) + 6 * (b / a) ^ 2 / a + (b / a) ^ 4) * exp (ln (2 * PI / a) / 2 + b * b / (2 * a) + c))
  with (plus (plus (scal (3 / a) ((/ a + (b / a) * (b / a)) * exp (ln (2 * PI / a) / 2 + b * b / (2 * a) + c)))
                   (scal (b / a) ((3 * (b / a) / a + (b / a) ^ 3) * exp (ln (2 * PI / a) / 2 + b * b / (2 * a) + c))))
             (scal (- / a) 0)).
- revert H4. apply is_RInt_gen_ext_eq_line. intros t.
  unfold plus, scal; simpl. unfold mult; simpl. unfold gq.
  generalize (exp (- (a * t * t) / 2 + b * t + c)). intros e. field. lra.
- unfold plus, scal; simpl. unfold mult; simpl. field. lra.
Qed.
Print Assumptions gauss_1d_t4.

(* ------------------------------------------------------------------ *)
(* 3. products of three / four affine prefactors                       *)
(* ------------------------------------------------------------------ *)
Notation line_int f v := (is_RInt_gen f (Rbar_locally m_infty) (Rbar_locally p_infty) v).

Lemma line_val (f : R -> R) (v w : R) : v = w -> line_int f v -> line_int f w.
Proof. intros ->. exact (fun H => H). Qed.

Lemma line_scal (f : R -> R) (k v : R) : line_int f v -> line_int (fun t => k * f t) (k * v).
Proof. intros H. exact (is_RInt_gen_scal f k v H). Qed.

Lemma line_plus (f g : R -> R) (v w : R) : line_int f v -> line_int g w -> line_int (fun t => f t + g t) (v + w).
Proof. intros H1 H2. exact (is_RInt_gen_plus f g v w H1 H2). Qed.

Lemma aff3_expand al1 be1 al2 be2 al3 be3 t e :
  (al1 * al2 * al3) * (t * t * t * e)
  + ((al1 * al2 * be3 + al1 * be2 * al3 + be1 * al2 * al3) * (t * t * e)
  + ((al1 * be2 * be3 + be1 * al2 * be3 + be1 * be2 * al3) * (t * e)
  + (be1 * be2 * be3) * e))
  = (al1 * t + be1) * (al2 * t + be2) * (al3 * t + be3) * e.
Proof. ring. Qed.

Lemma aff3_value a b al1 be1 al2 be2 al3 be3 E : a <> 0 ->
  (al1 * al2 * al3) * ((3 * (b / a) / a + (b / a) ^ 3) * E)
  + ((al1 * al2 * be3 + al1 * be2 * al3 + be1 * al2 * al3) * ((/ a + (b / a) * (b / a)) * E)
  + ((al1 * be2 * be3 + be1 * al2 * be3 + be1 * be2 * al3) * (b / a * E)
  + (be1 * be2 * be3) * E))
  = ((al1 * b / a + be1) * (al2 * b / a + be2) * (al3 * b / a + be3)
     + al1 * al2 / a * (al3 * b / a + be3)
     + al1 * al3 / a * (al2 * b / a + be2)
     + al2 * al3 / a * (al1 * b / a + be1)) * E.
Proof. intros Ha. field. exact Ha. Qed.

Corollary gauss_1d_aff3 a b c al1 be1 al2 be2 al3 be3 : 0 < a ->
  is_RInt_gen (fun t => (al1 * t + be1) * (al2 * t + be2) * (al3 * t + be3) * exp (- (a * t * t) / 2 + b * t + c))
              (Rbar_locally m_infty) (Rbar_locally p_infty)
              (((al1 * b / a + be1) * (al2 * b / a + be2) * (al3 * b / a + be3)
                + al1 * al2 / a * (al3 * b / a + be3)
                + al1 * al3 / a * (al2 * b / a + be2)
                + al2 * al3 / a * (al1 * b / a + be1))
               * exp (ln (2 * PI / a) / 2 + b * b / (2 * a) + c)).
Proof.
intros Ha.
pose proof (line_scal _ (al1 * al2 * al3) _ (gauss_1d_t3 a b c Ha)) as H1.
pose proof (line_scal _ (al1 * al2 * be3 + al1 * be2 * al3 + be1 * al2 * al3) _ (gauss_1d_tt a b c Ha)) as H2.
pose proof (line_scal _ (al1 * be2 * be3 + be1 * al2 * be3 + be1 * be2 * al3) _ (gauss_1d_t a b c Ha)) as H3.
pose proof (line_scal _ (be1 * be2 * be3) _ (gauss_1d a b c Ha)) as H4.
pose proof (line_plus _ _ _ _ H1 (line_plus _ _ _ _ H2 (line_plus _ _ _ _ H3 H4))) as H5.
assert (Hne : a <> 0) by lra.
apply (line_val _ _ _ (aff3_value a b al1 be1 al2 be2 al3 be3 _ Hne)).
revert H5. apply is_RInt_gen_ext_eq_line. intros t. unfold gq. apply aff3_expand.
Qed.

Lemma aff4_expand al1 be1 al2 be2 al3 be3 al4 be4 t e :
  (al1 * al2 * al3 * al4) * (t * t * t * t * e)
  + ((al1 * al2 * al3 * be4 + al1 * al2 * be3 * al4 + al1 * be2 * al3 * al4 + be1 * al2 * al3 * al4) * (t * t * t * e)
  + ((al1 * al2 * be3 * be4 + al1 * be2 * al3 * be4 + al1 * be2 * be3 * al4
      + be1 * al2 * al3 * be4 + be1 * al2 * be3 * al4 + be1 * be2 * al3 * al4) * (t * t * e)
  + ((al1 * be2 * be3 * be4 + be1 * al2 * be3 * be4 + be1 * be2 * al3 * be4 + be1 * be2 * be3 * al4) * (t * e)
  + (be1 * be2 * be3 * be4) * e)))
  = (al1 * t + be1) * (al2 * t + be2) * (al3 * t + be3) * (al4 * t + be4) * e.
Proof. ring. Qed.

Lemma aff4_value a b al1 be1 al2 be2 al3 be3 al4 be4 E : a <> 0 ->
  (al1 * al2 * al3 * al4) * ((3 / (a * a) + 6 * (b / a) ^ 2 / a + (b / a) ^ 4) * E)
  + ((al1 * al2 * al3 * be4 + al1 * al2 * be3 * al4 + al1 * be2 * al3 * al4 + be1 * al2 * al3 * al4)
       * ((3 * (b / a) / a + (b / a) ^ 3) * E)
  + ((al1 * al2 * be3 * be4 + al1 * be2 * al3 * be4 + al1 * be2 * be3 * al4
      + be1 * al2 * al3 * be4 + be1 * al2 * be3 * al4 + be1 * be2 * al3 * al4) * ((/ a + (b / a) * (b / a)) * E)
  + ((al1 * be2 * be3 * be4 + be1 * al2 * be3 * be4 + be1 * be2 * al3 * be4 + be1 * be2 * be3 * al4) * (b / a * E)
  + (be1 * be2 * be3 * be4) * E)))
  = ((al1 * b / a + be1) * (al2 * b / a + be2) * (al3 * b / a + be3) * (al4 * b / a + be4)
     + al1 * al2 / a * ((al3 * b / a + be3) * (al4 * b / a + be4))
     + al1 * al3 / a * ((al2 * b / a + be2) * (al4 * b / a + be4))
     + al1 * al4 / a * ((al2 * b / a + be2) * (al3 * b / a + be3))
     + al2 * al3 / a * ((al1 * b / a + be1) * (al4 * b / a + be4))
     + al2 * al4 / a * ((al1 * b / a + be1) * (al3 * b / a + be3))
     + al3 * al4 / a * ((al1 * b / a + be1) * (al2 * b / a + be2))
     + (al1 * al2 / a * (al3 * al4 / a) + al1 * al3 / a * (al2 * al4 / a) + al1 * al4 / a * (al2 * al3 / a))) * E.
Proof. intros Ha. field. exact Ha. Qed.

Corollary gauss_1d_aff4 a b c al1 be1 al2 be2 al3 be3 al4 be4 : 0 < a ->
  is_RInt_gen (fun t => (al1 * t + be1) * (al2 * t + be2) * (al3 * t + be3) * (al4 * t + be4)
                        * exp (- (a * t * t) / 2 + b * t + c))
              (Rbar_locally m_infty) (Rbar_locally p_infty)
              (((al1 * b / a + be1) * (al2 * b / a + be2) * (al3 * b / a + be3) * (al4 * b / a + be4)
                + al1 * al2 / a * ((al3 * b / a + be3) * (al4 * b / a + be4))
                + al1 * al3 / a * ((al2 * b / a + be2) * (al4 * b / a + be4))
                + al1 * al4 / a * ((al2 * b / a + be2) * (al3 * b / a + be3))
                + al2 * al3 / a * ((al1 * b / a + be1) * (al4 * b / a + be4))
                + al2 * al4 / a * ((al1 * b / a + be1) * (al3 * b / a + be3))
                + al3 * al4 / a * ((al1 * b / a + be1) * (al2 * b / a + be2))
                + (al1 * al2 / a * (al3 * al4 / a) + al1 * al3 / a * (al2 * al4 / a) + al1 * al4 / a * (al2 * al3 / a)))
               * exp (ln (2 * PI / a) / 2 + b * b / (2 * a) + c)).
Proof.
intros Ha.
pose proof (line_scal _ (al1 * al2 * al3 * al4) _ (gauss_1d_t4 a b c Ha)) as H0.
pose proof (line_scal _ (al1 * al2 * al3 * be4 + al1 * al2 * be3 * al4 + al1 * be2 * al3 * al4 + be1 * al2 * al3 * al4) _
              (gauss_1d_t3 a b c Ha)) as H1.
pose proof (line_scal _ (al1 * al2 * be3 * be4 + al1 * be2 * al3 * be4 + al1 * be2 * be3 * al4
      + be1 * al2 * al3 * be4 + be1 * al2 * be3 * al4 + be1 * be2 * al3 * al4) _ (gauss_1d_tt a b c Ha)) as H2.
pose proof (line_scal _ (al1 * be2 * be3 * be4 + be1 * al2 * be3 * be4 + be1 * be2 * al3 * be4 + be1 * be2 * be3 * al4) _
              (gauss_1d_t a b c Ha)) as H3.
pose proof (line_scal _ (be1 * be2 * be3 * be4) _ (gauss_1d a b c Ha)) as H4.
pose proof (line_plus _ _ _ _ H0 (line_plus _ _ _ _ H1 (line_plus _ _ _ _ H2 (line_plus _ _ _ _ H3 H4)))) as H5.
assert (Hne : a <> 0) by lra.
apply (line_val _ _ _ (aff4_value a b al1 be1 al2 be2 al3 be3 al4 be4 _ Hne)).
revert H5. apply is_RInt_gen_ext_eq_line. intros t. unfold gq. apply aff4_expand.
Qed.

(* ------------------------------------------------------------------ *)
(* 4. third moments: product of three affine forms                     *)
(* ------------------------------------------------------------------ *)
Lemma lin3_value m1 m2 m3 c12 c13 c23 p12 p13 p23 E :
  (m1 * m2 * m3 + c12 * m3 + c13 * m2 + c23 * m1) * E + (p12 * (m3 * E) + (p13 * (m2 * E) + p23 * (m1 * E)))
  = (m1 * m2 * m3 + (p12 + c12) * m3 + (p13 + c13) * m2 + (p23 + c23) * m1) * E.
Proof. ring. Qed.

Lemma lin3_split G1 G2 G3 p12 p13 p23 e :
  G1 * G2 * G3 * e + (p12 * (G3 * e) + (p13 * (G2 * e) + p23 * (G1 * e)))
  = (G1 * G2 * G3 + p12 * G3 + p13 * G2 + p23 * G1) * e.
Proof. ring. Qed.

Theorem gauss_nd_lin3 D L nu c l1 l10 l2 l20 l3 l30 : symR D L -> gpivR D L ->
  is_gint D (fun x => linR D l1 l10 x * linR D l2 l20 x * linR D l3 l30 x * exp (quadR D L nu x + c))
            ((gmeanR D L nu l1 l10 * gmeanR D L nu l2 l20 * gmeanR D L nu l3 l30
              + gcovR D L l1 l2 * gmeanR D L nu l3 l30
              + gcovR D L l1 l3 * gmeanR D L nu l2 l20
              + gcovR D L l2 l3 * gmeanR D L nu l1 l10) * exp (gvalR D L nu + c)).
Proof.
revert L nu c l1 l10 l2 l20 l3 l30. induction D as [|m IH]; intros L nu c l1 l10 l2 l20 l3 l30 Hsym Hpiv.
- apply (is_gint_val O _ (linR O l1 l10 (fun _ => 0) * linR O l2 l20 (fun _ => 0) * linR O l3 l30 (fun _ => 0)
                          * exp (quadR O L nu (fun _ => 0) + c))).
  + unfold linR, quadR. simpl. f_equal. ring. f_equal. lra.
  + apply (gint_O (fun x => linR O l1 l10 x * linR O l2 l20 x * linR O l3 l30 x * exp (quadR O L nu x + c))).
- destruct Hpiv as [H00 Hpiv]. simpl gvalR. simpl gmeanR. simpl gcovR.
  assert (Hne : L O O <> 0) by lra.
  assert (Hsym' : symR m (gschurR L)) by (apply symR_gschurR; exact Hsym).
  pose (c' := ln (2 * PI / L O O) / 2 + nu O * nu O / (2 * L O O) + c).
  pose (G1 := linR m (glinR L l1) (glin0R L nu l1 l10)).
  pose (G2 := linR m (glinR L l2) (glin0R L nu l2 l20)).
  pose (G3 := linR m (glinR L l3) (glin0R L nu l3 l30)).
  pose (p12 := l1 O * l2 O / L O O). pose (p13 := l1 O * l3 O / L O O). pose (p23 := l2 O * l3 O / L O O).
  apply (gint_S m _ (fun x => (G1 x * G2 x * G3 x + p12 * G3 x + p13 * G2 x + p23 * G1 x)
                              * exp (quadR m (gschurR L) (gnuR L nu) x + c'))).
  + intros x.
    apply (is_RInt_gen_ext_eq_line
             (fun t => (l1 O * t + linR m (fun i => l1 (S i)) l10 x) * (l2 O * t + linR m (fun i => l2 (S i)) l20 x)
                       * (l3 O * t + linR m (fun i => l3 (S i)) l30 x)
                       * exp (- (L O O * t * t) / 2 + (nu O - sumR m (fun i => L (S i) O * x i)) * t
                            + (quadR m (fun i j => L (S i) (S j)) (fun i => nu (S i)) x + c)))).
    * intros t. rewrite (quadR_consv m L nu t x Hsym), !linR_consv. f_equal. f_equal. ring.
    * unfold G1, G2, G3, p12, p13, p23.
      rewrite <- (linR_elim m L nu l1 l10 x Hne), <- (linR_elim m L nu l2 l20 x Hne), <- (linR_elim m L nu l3 l30 x Hne).
      unfold c'. rewrite <- (gexp_schur m L nu x c Hne).
      apply gauss_1d_aff3. exact H00.
  + apply (is_gint_ext m (fun x => G1 x * G2 x * G3 x * exp (quadR m (gschurR L) (gnuR L nu) x + c')
                                   + (p12 * (G3 x * exp (quadR m (gschurR L) (gnuR L nu) x + c'))
                                   + (p13 * (G2 x * exp (quadR m (gschurR L) (gnuR L nu) x + c'))
                                   + p23 * (G1 x * exp (quadR m (gschurR L) (gnuR L nu) x + c')))))).
    * intros x. apply lin3_split.
    * replace (ln (2 * PI / L O O) / 2 + nu O * nu O / (2 * L O O) + gvalR m (gschurR L) (gnuR L nu) + c)
        with (gvalR m (gschurR L) (gnuR L nu) + c') by (unfold c'; ring).
      fold p12 p13 p23.
      apply (is_gint_val m _ _ _ (lin3_value _ _ _ _ _ _ p12 p13 p23 _)).
      apply is_gint_plus; [ apply IH; assumption | ].
      apply is_gint_plus; [ apply is_gint_scal; apply gauss_nd_lin; assumption | ].
      apply is_gint_plus; apply is_gint_scal; apply gauss_nd_lin; assumption.
Qed.
Print Assumptions gauss_nd_lin3.

(* ------------------------------------------------------------------ *)
(* 5. fourth moments: product of four affine forms                     *)
(* ------------------------------------------------------------------ *)
Lemma lin4_value m1 m2 m3 m4 c12 c13 c14 c23 c24 c34 p12 p13 p14 p23 p24 p34 E :
  (m1 * m2 * m3 * m4 + c12 * m3 * m4 + c13 * m2 * m4 + c14 * m2 * m3 + c23 * m1 * m4 + c24 * m1 * m3 + c34 * m1 * m2
   + c12 * c34 + c13 * c24 + c14 * c23) * E
  + (p12 * ((c34 + m3 * m4) * E) + (p13 * ((c24 + m2 * m4) * E) + (p14 * ((c23 + m2 * m3) * E)
  + (p23 * ((c14 + m1 * m4) * E) + (p24 * ((c13 + m1 * m3) * E) + (p34 * ((c12 + m1 * m2) * E)
  + (p12 * p34 + p13 * p24 + p14 * p23) * E))))))
  = (m1 * m2 * m3 * m4 + (p12 + c12) * m3 * m4 + (p13 + c13) * m2 * m4 + (p14 + c14) * m2 * m3
     + (p23 + c23) * m1 * m4 + (p24 + c24) * m1 * m3 + (p34 + c34) * m1 * m2
     + (p12 + c12) * (p34 + c34) + (p13 + c13) * (p24 + c24) + (p14 + c14) * (p23 + c23)) * E.
Proof. ring. Qed.

Lemma lin4_split G1 G2 G3 G4 p12 p13 p14 p23 p24 p34 e :
  G1 * G2 * G3 * G4 * e
  + (p12 * (G3 * G4 * e) + (p13 * (G2 * G4 * e) + (p14 * (G2 * G3 * e)
  + (p23 * (G1 * G4 * e) + (p24 * (G1 * G3 * e) + (p34 * (G1 * G2 * e)
  + (p12 * p34 + p13 * p24 + p14 * p23) * e))))))
  = (G1 * G2 * G3 * G4 + p12 * (G3 * G4) + p13 * (G2 * G4) + p14 * (G2 * G3)
     + p23 * (G1 * G4) + p24 * (G1 * G3) + p34 * (G1 * G2) + (p12 * p34 + p13 * p24 + p14 * p23)) * e.
Proof. ring. Qed.

Theorem gauss_nd_lin4 D L nu c l1 l10 l2 l20 l3 l30 l4 l40 : symR D L -> gpivR D L ->
  is_gint D (fun x => linR D l1 l10 x * linR D l2 l20 x * linR D l3 l30 x * linR D l4 l40 x * exp (quadR D L nu x + c))
            ((gmeanR D L nu l1 l10 * gmeanR D L nu l2 l20 * gmeanR D L nu l3 l30 * gmeanR D L nu l4 l40
              + gcovR D L l1 l2 * gmeanR D L nu l3 l30 * gmeanR D L nu l4 l40
              + gcovR D L l1 l3 * gmeanR D L nu l2 l20 * gmeanR D L nu l4 l40
              + gcovR D L l1 l4 * gmeanR D L nu l2 l20 * gmeanR D L nu l3 l30
              + gcovR D L l2 l3 * gmeanR D L nu l1 l10 * gmeanR D L nu l4 l40
              + gcovR D L l2 l4 * gmeanR D L nu l1 l10 * gmeanR D L nu l3 l30
              + gcovR D L l3 l4 * gmeanR D L nu l1 l10 * gmeanR D L nu l2 l20
              + gcovR D L l1 l2 * gcovR D L l3 l4
              + gcovR D L l1 l3 * gcovR D L l2 l4
              + gcovR D L l1 l4 * gcovR D L l2 l3) * exp (gvalR D L nu + c)).
Proof.
revert L nu c l1 l10 l2 l20 l3 l30 l4 l40.
induction D as [|m IH]; intros L nu c l1 l10 l2 l20 l3 l30 l4 l40 Hsym Hpiv.
- apply (is_gint_val O _ (linR O l1 l10 (fun _ => 0) * linR O l2 l20 (fun _ => 0) * linR O l3 l30 (fun _ => 0)
                          * linR O l4 l40 (fun _ => 0) * exp (quadR O L nu (fun _ => 0) + c))).
  + unfold linR, quadR. simpl. f_equal. ring. f_equal. lra.
  + apply (gint_O (fun x => linR O l1 l10 x * linR O l2 l20 x * linR O l3 l30 x * linR O l4 l40 x
                            * exp (quadR O L nu x + c))).
- destruct Hpiv as [H00 Hpiv]. simpl gvalR. simpl gmeanR. simpl gcovR.
  assert (Hne : L O O <> 0) by lra.
  assert (Hsym' : symR m (gschurR L)) by (apply symR_gschurR; exact Hsym).
  pose (c' := ln (2 * PI / L O O) / 2 + nu O * nu O / (2 * L O O) + c).
  pose (G1 := linR m (glinR L l1) (glin0R L nu l1 l10)).
  pose (G2 := linR m (glinR L l2) (glin0R L nu l2 l20)).
  pose (G3 := linR m (glinR L l3) (glin0R L nu l3 l30)).
  pose (G4 := linR m (glinR L l4) (glin0R L nu l4 l40)).
  pose (p12 := l1 O * l2 O / L O O). pose (p13 := l1 O * l3 O / L O O). pose (p14 := l1 O * l4 O / L O O).
  pose (p23 := l2 O * l3 O / L O O). pose (p24 := l2 O * l4 O / L O O). pose (p34 := l3 O * l4 O / L O O).
  pose (Q := fun x => exp (quadR m (gschurR L) (gnuR L nu) x + c')).
  apply (gint_S m _ (fun x => (G1 x * G2 x * G3 x * G4 x + p12 * (G3 x * G4 x) + p13 * (G2 x * G4 x) + p14 * (G2 x * G3 x)
                               + p23 * (G1 x * G4 x) + p24 * (G1 x * G3 x) + p34 * (G1 x * G2 x)
                               + (p12 * p34 + p13 * p24 + p14 * p23)) * Q x)).
  + intros x.
    apply (is_RInt_gen_ext_eq_line
             (fun t => (l1 O * t + linR m (fun i => l1 (S i)) l10 x) * (l2 O * t + linR m (fun i => l2 (S i)) l20 x)
                       * (l3 O * t + linR m (fun i => l3 (S i)) l30 x) * (l4 O * t + linR m (fun i => l4 (S i)) l40 x)
                       * exp (- (L O O * t * t) / 2 + (nu O - sumR m (fun i => L (S i) O * x i)) * t
                            + (quadR m (fun i j => L (S i) (S j)) (fun i => nu (S i)) x + c)))).
    * intros t. rewrite (quadR_consv m L nu t x Hsym), !linR_consv. f_equal. f_equal. ring.
    * unfold Q, G1, G2, G3, G4, p12, p13, p14, p23, p24, p34.
      rewrite <- (linR_elim m L nu l1 l10 x Hne), <- (linR_elim m L nu l2 l20 x Hne),
              <- (linR_elim m L nu l3 l30 x Hne), <- (linR_elim m L nu l4 l40 x Hne).
      unfold c'. rewrite <- (gexp_schur m L nu x c Hne).
      apply gauss_1d_aff4. exact H00.
  + apply (is_gint_ext m (fun x => G1 x * G2 x * G3 x * G4 x * Q x
                                   + (p12 * (G3 x * G4 x * Q x) + (p13 * (G2 x * G4 x * Q x) + (p14 * (G2 x * G3 x * Q x)
                                   + (p23 * (G1 x * G4 x * Q x) + (p24 * (G1 x * G3 x * Q x) + (p34 * (G1 x * G2 x * Q x)
                                   + (p12 * p34 + p13 * p24 + p14 * p23) * Q x)))))))).
    * intros x. apply lin4_split.
    * replace (ln (2 * PI / L O O) / 2 + nu O * nu O / (2 * L O O) + gvalR m (gschurR L) (gnuR L nu) + c)
        with (gvalR m (gschurR L) (gnuR L nu) + c') by (unfold c'; ring).
      fold p12 p13 p14 p23 p24 p34.
      apply (is_gint_val m _ _ _ (lin4_value _ _ _ _ _ _ _ _ _ _ p12 p13 p14 p23 p24 p34 _)).
      apply is_gint_plus; [ apply IH; assumption | ].
      do 6 (apply is_gint_plus; [ apply is_gint_scal; apply gauss_nd_lin2; assumption | ]).
      apply is_gint_scal. apply gauss_nd; assumption.
Qed.
Print Assumptions gauss_nd_lin4.

(* ------------------------------------------------------------------ *)
(* 6. sanity checks (non-vacuity)                                      *)
(* ------------------------------------------------------------------ *)
(* int t^4 exp(-t^2/2) dt = 3 sqrt(2 PI),  int t^3 exp(-t^2/2 + t) dt = 4 sqrt(e) sqrt(2 PI) *)
Lemma gauss_1d_t4_std :
  is_RInt_gen (fun t => t * t * t * t * exp (- (t * t) / 2)) (Rbar_locally m_infty) (Rbar_locally p_infty) (3 * sqrt (2 * PI)).
Proof.
assert (Hpi : 0 < 2 * PI) by (generalize PI_RGT_0; lra).
pose proof (gauss_1d_t4 1 0 0 Rlt_0_1) as H.
apply (line_val _ ((3 / (1 * 1) + 6 * (0 / 1) ^ 2 / 1 + (0 / 1) ^ 4) * exp (ln (2 * PI / 1) / 2 + 0 * 0 / (2 * 1) + 0))).
- replace (ln (2 * PI / 1) / 2 + 0 * 0 / (2 * 1) + 0) with (ln (2 * PI) / 2).
  + rewrite exp_half_ln by exact Hpi. field.
  + replace (2 * PI / 1) with (2 * PI) by field. field.
- revert H. apply is_RInt_gen_ext_eq_line. intros t. unfold gq. f_equal. f_equal. field.
Qed.

(* L = [[2,1],[1,2]], L^-1 = [[2,-1],[-1,2]]/3, centred: E[x0^4] = 3 (2/3)^2 = 4/3, E[x0^2 x1^2] = (2/3)^2 + 2 (1/3)^2 = 2/3,
   E[x0^2 x1] = 0 *)
Lemma gauss_2d_correlated_x0x0x1x1 :
  is_gint 2 (fun x => x 0%nat * x 0%nat * x 1%nat * x 1%nat * exp (quadR 2 L21 (fun _ => 0) x + 0)) (2 / 3 * (2 * PI / sqrt 3)).
Proof.
assert (Hs : symR 2 L21).
{ intros i j Hi Hj. unfold L21. destruct i as [|[|i]]; destruct j as [|[|j]]; try reflexivity; lia. }
assert (Hp : gpivR 2 L21) by (simpl; unfold gschurR, L21; repeat split; lra).
pose proof (gauss_nd_lin4 2 L21 (fun _ => 0) 0 e0R 0 e0R 0 e1R 0 e1R 0 Hs Hp) as H.
pose proof (is_gint_unique _ _ _ _ (gauss_nd 2 L21 (fun _ => 0) 0 Hs Hp) gauss_2d_correlated) as E.
rewrite E, gcovR_L21_01, gcovR_L21_00 in H.
assert (E11 : gcovR 2 L21 e1R e1R = 2 / 3) by (unfold gcovR, glinR, gschurR, L21, e1R; field).
rewrite E11 in H.
assert (M0 : gmeanR 2 L21 (fun _ => 0) e0R 0 = 0) by (unfold gmeanR, glinR, glin0R, gschurR, gnuR, L21, e0R; field).
assert (M1 : gmeanR 2 L21 (fun _ => 0) e1R 0 = 0) by (unfold gmeanR, glinR, glin0R, gschurR, gnuR, L21, e1R; field).
rewrite M0, M1 in H.
apply (is_gint_val 2 _ _ (2 / 3 * (2 * PI / sqrt 3))) in H.
- revert H. apply is_gint_ext. intros x. unfold linR, e0R, e1R. simpl. ring.
- field. apply Rgt_not_eq. apply sqrt_lt_R0. lra.
Qed.

Lemma gauss_2d_correlated_x0x0x1 :
  is_gint 2 (fun x => x 0%nat * x 0%nat * x 1%nat * exp (quadR 2 L21 (fun _ => 0) x + 0)) 0.
Proof.
assert (Hs : symR 2 L21).
{ intros i j Hi Hj. unfold L21. destruct i as [|[|i]]; destruct j as [|[|j]]; try reflexivity; lia. }
assert (Hp : gpivR 2 L21) by (simpl; unfold gschurR, L21; repeat split; lra).
pose proof (gauss_nd_lin3 2 L21 (fun _ => 0) 0 e0R 0 e0R 0 e1R 0 Hs Hp) as H.
assert (M0 : gmeanR 2 L21 (fun _ => 0) e0R 0 = 0) by (unfold gmeanR, glinR, glin0R, gschurR, gnuR, L21, e0R; field).
assert (M1 : gmeanR 2 L21 (fun _ => 0) e1R 0 = 0) by (unfold gmeanR, glinR, glin0R, gschurR, gnuR, L21, e1R; field).
rewrite M0, M1 in H.
apply (is_gint_val 2 _ _ 0) in H.
- revert H. apply is_gint_ext. intros x. unfold linR, e0R, e1R. simpl. ring.
- ring.
Qed.
