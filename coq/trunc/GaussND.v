(* The D-dimensional Gaussian integral as an ITERATED improper Riemann integral:
     int_{R^D} exp(-x'Lx/2 + nu'x + c) dx = exp(gvalR D L nu + c),
   by induction on D, eliminating one variable at a time (completing the square = one Schur-complement step). *)
From Coq Require Import Reals Lra Lia.
From Coquelicot Require Import Coquelicot.
From GT Require Import TruncGen C20_proofs GaussInt.
Open Scope R_scope.

Definition vecR := nat -> R.
Definition matR := nat -> nat -> R.
Fixpoint sumR (n : nat) (f : nat -> R) : R :=
  match n with O => 0 | S m => f O + sumR m (fun i => f (S i)) end.
Definition consv (t : R) (x : vecR) : vecR := fun i => match i with O => t | S j => x j end.

(* integral over R^D of f, coordinate 0 integrated first (innermost) *)
Inductive is_gint : nat -> (vecR -> R) -> R -> Prop :=
| gint_O f : is_gint O f (f (fun _ => 0))
| gint_S D f g v :
    (forall x : vecR, is_RInt_gen (fun t => f (consv t x)) (Rbar_locally m_infty) (Rbar_locally p_infty) (g x)) ->
    is_gint D g v -> is_gint (S D) f v.

Definition quadR (D : nat) (L : matR) (nu : vecR) (x : vecR) : R :=
  - (sumR D (fun i => sumR D (fun j => L i j * x i * x j))) / 2 + sumR D (fun i => nu i * x i).

Definition gschurR (L : matR) : matR := fun i j => L (S i) (S j) - L (S i) O * L (S j) O / L O O.
Definition gnuR (L : matR) (nu : vecR) : vecR := fun i => nu (S i) - nu O * L (S i) O / L O O.
Fixpoint gvalR (D : nat) (L : matR) (nu : vecR) : R :=
  match D with
  | O => 0
  | S m => ln (2 * PI / L O O) / 2 + nu O * nu O / (2 * L O O) + gvalR m (gschurR L) (gnuR L nu)
  end.
Fixpoint gpivR (D : nat) (L : matR) : Prop :=
  match D with O => True | S m => 0 < L O O /\ gpivR m (gschurR L) end.
Definition symR (D : nat) (L : matR) : Prop := forall i j, (i < D)%nat -> (j < D)%nat -> L i j = L j i.

(* ------------------------------------------------------------------ *)
(* 1. finite sums                                                      *)
(* ------------------------------------------------------------------ *)
Lemma sumR_ext_lt n : forall f g, (forall i, (i < n)%nat -> f i = g i) -> sumR n f = sumR n g.
Proof.
induction n as [|n IH]; intros f g H; simpl.
- reflexivity.
- rewrite (H O) by lia. f_equal. apply IH. intros i Hi. apply H. lia.
Qed.

Lemma sumR_ext n f g : (forall i, f i = g i) -> sumR n f = sumR n g.
Proof. intros H. apply sumR_ext_lt. intros i _. apply H. Qed.

Lemma sumR_plus n : forall f g, sumR n (fun i => f i + g i) = sumR n f + sumR n g.
Proof. induction n as [|n IH]; intros f g; simpl. ring. rewrite IH. ring. Qed.

Lemma sumR_scal_l n : forall k f, sumR n (fun i => k * f i) = k * sumR n f.
Proof. induction n as [|n IH]; intros k f; simpl. ring. rewrite IH. ring. Qed.

Lemma sumR_scal_r n k f : sumR n (fun i => f i * k) = sumR n f * k.
Proof.
rewrite (sumR_ext n _ (fun i => k * f i)) by (intros; ring).
rewrite sumR_scal_l. ring.
Qed.

Lemma sumR_opp n f : sumR n (fun i => - f i) = - sumR n f.
Proof.
rewrite (sumR_ext n _ (fun i => (-1) * f i)) by (intros; ring).
rewrite sumR_scal_l. ring.
Qed.

Lemma sumR_minus n f g : sumR n (fun i => f i - g i) = sumR n f - sumR n g.
Proof.
rewrite (sumR_ext n _ (fun i => f i + - g i)) by (intros; ring).
rewrite sumR_plus, sumR_opp. ring.
Qed.

Lemma sumR_zero n : sumR n (fun _ => 0) = 0.
Proof. induction n as [|n IH]; simpl. reflexivity. rewrite IH. ring. Qed.

Lemma sumR_prod n f g : sumR n f * sumR n g = sumR n (fun i => sumR n (fun j => f i * g j)).
Proof.
rewrite <- sumR_scal_r. apply sumR_ext. intros i. rewrite sumR_scal_l. reflexivity.
Qed.

(* ------------------------------------------------------------------ *)
(* 2. completing the square                                            *)
(* ------------------------------------------------------------------ *)
Lemma symR_tail m L : symR (S m) L -> symR m (fun i j => L (S i) (S j)).
Proof. intros H i j Hi Hj. apply H; lia. Qed.

Lemma symR_gschurR m L : symR (S m) L -> symR m (gschurR L).
Proof.
intros H i j Hi Hj. unfold gschurR. rewrite (H (S i) (S j)) by lia. unfold Rdiv. ring.
Qed.

Lemma quadR_consv m L nu t x : symR (S m) L ->
  quadR (S m) L nu (consv t x) =
  - (L O O * t * t) / 2 + (nu O - sumR m (fun i => L (S i) O * x i)) * t
  + quadR m (fun i j => L (S i) (S j)) (fun i => nu (S i)) x.
Proof.
intros Hs. unfold quadR. simpl.
(* the row  j |-> L 0 (S j) t x_j *)
rewrite (sumR_ext_lt m (fun i => L O (S i) * t * x i) (fun i => t * (L (S i) O * x i))).
2:{ intros i Hi. rewrite (Hs O (S i)) by lia. ring. }
rewrite sumR_scal_l.
(* the rows i |-> L (S i) 0 x_i t + sum_j ... *)
rewrite (sumR_ext m (fun i => L (S i) O * x i * t + sumR m (fun j => L (S i) (S j) * x i * x j))
                   (fun i => t * (L (S i) O * x i) + sumR m (fun j => L (S i) (S j) * x i * x j))).
2:{ intros i. ring. }
rewrite sumR_plus, sumR_scal_l.
generalize (sumR m (fun i => L (S i) O * x i)).
generalize (sumR m (fun i => sumR m (fun j => L (S i) (S j) * x i * x j))).
generalize (sumR m (fun i => nu (S i) * x i)).
intros B A s. field.
Qed.

Lemma quadR_schur m L nu x : L O O <> 0 ->
  quadR m (fun i j => L (S i) (S j)) (fun i => nu (S i)) x
    + (nu O - sumR m (fun i => L (S i) O * x i)) ^ 2 / (2 * L O O)
  = quadR m (gschurR L) (gnuR L nu) x + nu O * nu O / (2 * L O O).
Proof.
intros H0. unfold quadR, gschurR, gnuR.
rewrite (sumR_ext m (fun i => sumR m (fun j => (L (S i) (S j) - L (S i) O * L (S j) O / L O O) * x i * x j))
   (fun i => sumR m (fun j => L (S i) (S j) * x i * x j)
             - / L O O * sumR m (fun j => (L (S i) O * x i) * (L (S j) O * x j)))).
2:{ intros i. rewrite <- sumR_scal_l, <- sumR_minus. apply sumR_ext. intros j. unfold Rdiv. ring. }
rewrite sumR_minus, sumR_scal_l, <- sumR_prod.
rewrite (sumR_ext m (fun i => (nu (S i) - nu O * L (S i) O / L O O) * x i)
   (fun i => nu (S i) * x i - (nu O / L O O) * (L (S i) O * x i))).
2:{ intros i. unfold Rdiv. ring. }
rewrite sumR_minus, sumR_scal_l.
generalize (sumR m (fun i => L (S i) O * x i)).
generalize (sumR m (fun i => sumR m (fun j => L (S i) (S j) * x i * x j))).
generalize (sumR m (fun i => nu (S i) * x i)).
intros B A s. field. exact H0.
Qed.

(* ------------------------------------------------------------------ *)
(* 3. the one-dimensional Gaussian integral with general coefficients  *)
(* ------------------------------------------------------------------ *)
Lemma is_RInt_gen_comp_lin_line (f : R -> R) (u v l : R) : 0 < u ->
  is_RInt_gen f (Rbar_locally m_infty) (Rbar_locally p_infty) l ->
  is_RInt_gen (fun y => scal u (f (u * y + v))) (Rbar_locally m_infty) (Rbar_locally p_infty) l.
Proof.
intros Hu H P HP. specialize (H P HP). unfold filtermapi in *.
destruct H as [Q R [M HM] [N HN] HQR].
apply (Filter_prod _ _ _ (fun x => Q (u * x + v)) (fun y => R (u * y + v))).
- exists ((M - v) / u). intros x Hx. apply HM.
  apply (Rmult_lt_compat_l u) in Hx; [ | exact Hu].
  replace (u * ((M - v) / u)) with (M - v) in Hx by (field; lra). lra.
- exists ((N - v) / u). intros x Hx. apply HN.
  apply (Rmult_lt_compat_l u) in Hx; [ | exact Hu].
  replace (u * ((N - v) / u)) with (N - v) in Hx by (field; lra). lra.
- intros x y Hx Hy. destruct (HQR _ _ Hx Hy) as [z [Hz Pz]]. simpl in Hz.
  exists z. split; [ | exact Pz]. simpl.
  apply (@is_RInt_comp_lin R_NormedModule). exact Hz.
Qed.

Lemma is_RInt_gen_ext_eq_line (f g : R -> R) (l : R) : (forall x, f x = g x) ->
  is_RInt_gen f (Rbar_locally m_infty) (Rbar_locally p_infty) l ->
  is_RInt_gen g (Rbar_locally m_infty) (Rbar_locally p_infty) l.
Proof.
intros H. apply is_RInt_gen_ext. apply filter_forall. intros ab x _. apply H.
Qed.

Lemma exp_half_ln (y : R) : 0 < y -> exp (ln y / 2) = sqrt y.
Proof.
intros Hy.
assert (Hs : 0 < sqrt y) by (apply sqrt_lt_R0; exact Hy).
rewrite <- (exp_ln (sqrt y)) by exact Hs. f_equal.
rewrite <- (sqrt_sqrt y) at 1 by lra. rewrite ln_mult by exact Hs. lra.
Qed.

Theorem gauss_1d a b c : 0 < a ->
  is_RInt_gen (fun t => exp (- (a * t * t) / 2 + b * t + c)) (Rbar_locally m_infty) (Rbar_locally p_infty)
              (exp (ln (2 * PI / a) / 2 + b * b / (2 * a) + c)).
Proof.
intros Ha.
assert (Hs : 0 < sqrt a) by (apply sqrt_lt_R0; exact Ha).
assert (Hss : sqrt a * sqrt a = a) by (apply sqrt_sqrt; lra).
pose (K := exp (b * b / (2 * a) + c) / sqrt a).
pose proof (is_RInt_gen_comp_lin_line (fun x => exp (- (x * x) / 2)) (sqrt a) (- (b / sqrt a)) _ Hs gauss_integral) as H1.
pose proof (is_RInt_gen_scal _ K _ H1) as H2.
replace (exp (ln (2 * PI / a) / 2 + b * b / (2 * a) + c)) with (scal K (sqrt (2 * PI))).
- revert H2. apply is_RInt_gen_ext_eq_line. intros t.
  unfold scal; simpl. unfold mult; simpl. unfold K.
  replace (- (a * t * t) / 2 + b * t + c)
    with ((b * b / (2 * a) + c) + - ((sqrt a * t + - (b / sqrt a)) * (sqrt a * t + - (b / sqrt a))) / 2).
  + rewrite (exp_plus (b * b / (2 * a) + c)). field. lra.
  + transitivity ((b * b / (2 * a) + c) + - ((sqrt a * sqrt a) * t * t - 2 * b * t + b * b / (sqrt a * sqrt a)) / 2).
    * field. lra.
    * rewrite Hss. field. lra.
- unfold scal; simpl. unfold mult; simpl. unfold K.
  assert (Hpi : 0 < 2 * PI) by (generalize PI_RGT_0; lra).
  replace (ln (2 * PI / a) / 2 + b * b / (2 * a) + c) with (ln (2 * PI / a) / 2 + (b * b / (2 * a) + c)) by ring.
  rewrite (exp_plus (ln (2 * PI / a) / 2)). rewrite exp_half_ln by (apply Rdiv_lt_0_compat; lra).
  rewrite sqrt_div_alt by lra. field. lra.
Qed.
Print Assumptions gauss_1d.

(* ------------------------------------------------------------------ *)
(* 4. generic facts about the iterated integral                        *)
(* ------------------------------------------------------------------ *)
Lemma is_gint_ext D f g v : (forall x, f x = g x) -> is_gint D f v -> is_gint D g v.
Proof.
intros Hfg H. revert g Hfg. induction H as [f | D f g0 v Hin Hout IH]; intros g Hfg.
- rewrite Hfg. apply gint_O.
- apply (gint_S D g g0 v); [ | exact Hout].
  intros x. apply (is_RInt_gen_ext_eq_line (fun t => f (consv t x))); [ | apply Hin].
  intros t. apply Hfg.
Qed.

Lemma is_gint_val D f v w : v = w -> is_gint D f v -> is_gint D f w.
Proof. intros ->. exact (fun H => H). Qed.

Lemma RInt_gen_line_unique (f : R -> R) (l1 l2 : R) :
  is_RInt_gen f (Rbar_locally m_infty) (Rbar_locally p_infty) l1 ->
  is_RInt_gen f (Rbar_locally m_infty) (Rbar_locally p_infty) l2 -> l1 = l2.
Proof.
intros H1 H2.
apply (@is_RInt_gen_unique R_CompleteNormedModule) in H1; [ | typeclasses eauto | typeclasses eauto ].
apply (@is_RInt_gen_unique R_CompleteNormedModule) in H2; [ | typeclasses eauto | typeclasses eauto ].
rewrite <- H1. exact H2.
Qed.

Theorem is_gint_unique D f v1 v2 : is_gint D f v1 -> is_gint D f v2 -> v1 = v2.
Proof.
intros H1. revert v2. induction H1 as [f | D f g v Hin Hout IH]; intros v2 H2.
- inversion H2. reflexivity.
- inversion H2 as [ | D' f' g' v' Hin' Hout' ]. subst.
  apply IH. apply (is_gint_ext D g' g); [ | exact Hout'].
  intros x. apply (RInt_gen_line_unique (fun t => f (consv t x))); [ apply Hin' | apply Hin ].
Qed.
Print Assumptions is_gint_unique.

(* comparison of improper integrals over the whole line (same proof as MonoR.RInt_gen_line_le) *)
Lemma RInt_gen_line_le' (F G : R -> R) lf lg : (forall x, F x <= G x) ->
  is_RInt_gen F (Rbar_locally m_infty) (Rbar_locally p_infty) lf ->
  is_RInt_gen G (Rbar_locally m_infty) (Rbar_locally p_infty) lg -> lf <= lg.
Proof.
  intros HFG HF HG. apply Rnot_lt_le. intros Hlt.
  pose (m := (lf + lg) / 2).
  assert (Pf : locally lf (fun y => m < y)) by (apply open_gt; unfold m; lra).
  assert (Pg : locally lg (fun y => y < m)) by (apply open_lt; unfold m; lra).
  specialize (HF _ Pf). specialize (HG _ Pg).
  unfold filtermapi in HF, HG.
  assert (Hord : filter_prod (Rbar_locally m_infty) (Rbar_locally p_infty)
                   (fun ab : R * R => fst ab < snd ab)).
  { apply (Filter_prod _ _ _ (fun a => a < 0) (fun b => 0 < b)).
    - now exists 0.
    - now exists 0.
    - intros a b Ha Hb. simpl. lra. }
  generalize (filter_and _ _ Hord (filter_and _ _ HF HG)). intros H.
  apply (filter_not_empty (F := filter_prod (Rbar_locally m_infty) (Rbar_locally p_infty))).
  revert H. apply filter_imp. intros [a b] [Hab [[yf [If Hyf]] [yg [Ig Hyg]]]]. simpl in *.
  assert (yf <= yg).
  { apply (is_RInt_le F G a b yf yg); try assumption; [ lra | intros; apply HFG ]. }
  lra.
Qed.

Theorem is_gint_le D f g vf vg : (forall x, f x <= g x) -> is_gint D f vf -> is_gint D g vg -> vf <= vg.
Proof.
intros Hfg H1. revert g vg Hfg. induction H1 as [f | D f f0 v Hin Hout IH]; intros g vg Hfg H2.
- inversion H2. apply Hfg.
- inversion H2 as [ | D' g' g0 v' Hin' Hout' ]. subst.
  apply (IH g0); [ | exact Hout'].
  intros x. apply (RInt_gen_line_le' (fun t => f (consv t x)) (fun t => g (consv t x))).
  + intros t. apply Hfg.
  + apply Hin.
  + apply Hin'.
Qed.
Print Assumptions is_gint_le.

Theorem is_gint_scal D f v k : is_gint D f v -> is_gint D (fun x => k * f x) (k * v).
Proof.
intros H. induction H as [f | D f g v Hin Hout IH].
- apply (gint_O (fun x => k * f x)).
- apply (gint_S D (fun x => k * f x) (fun x => k * g x) (k * v)); [ | exact IH].
  intros x. exact (is_RInt_gen_scal (fun t => f (consv t x)) k (g x) (Hin x)).
Qed.
Print Assumptions is_gint_scal.

Theorem is_gint_plus D f g vf vg : is_gint D f vf -> is_gint D g vg -> is_gint D (fun x => f x + g x) (vf + vg).
Proof.
intros H1. revert g vg. induction H1 as [f | D f f0 v Hin Hout IH]; intros g vg H2.
- inversion H2. apply (gint_O (fun x => f x + g x)).
- inversion H2 as [ | D' g' g0 v' Hin' Hout' ]. subst.
  apply (gint_S D (fun x => f x + g x) (fun x => f0 x + g0 x) (v + vg)); [ | apply IH; exact Hout'].
  intros x. exact (is_RInt_gen_plus (fun t => f (consv t x)) (fun t => g (consv t x)) (f0 x) (g0 x) (Hin x) (Hin' x)).
Qed.
Print Assumptions is_gint_plus.

(* ------------------------------------------------------------------ *)
(* 5. the D-dimensional Gaussian integral                              *)
(* ------------------------------------------------------------------ *)
Theorem gauss_nd D L nu c : symR D L -> gpivR D L ->
  is_gint D (fun x => exp (quadR D L nu x + c)) (exp (gvalR D L nu + c)).
Proof.
revert L nu c. induction D as [|m IH]; intros L nu c Hsym Hpiv.
- apply (is_gint_val O _ (exp (quadR O L nu (fun _ => 0) + c))).
  + unfold quadR. simpl. f_equal. lra.
  + apply (gint_O (fun x => exp (quadR O L nu x + c))).
- destruct Hpiv as [H00 Hpiv]. simpl gvalR.
  pose (c' := ln (2 * PI / L O O) / 2 + nu O * nu O / (2 * L O O) + c).
  apply (gint_S m _ (fun x => exp (quadR m (gschurR L) (gnuR L nu) x + c'))).
  + intros x.
    apply (is_RInt_gen_ext_eq_line
             (fun t => exp (- (L O O * t * t) / 2 + (nu O - sumR m (fun i => L (S i) O * x i)) * t
                            + (quadR m (fun i j => L (S i) (S j)) (fun i => nu (S i)) x + c)))).
    * intros t. rewrite (quadR_consv m L nu t x Hsym). f_equal. ring.
    * replace (exp (quadR m (gschurR L) (gnuR L nu) x + c'))
        with (exp (ln (2 * PI / L O O) / 2
                   + (nu O - sumR m (fun i => L (S i) O * x i)) * (nu O - sumR m (fun i => L (S i) O * x i)) / (2 * L O O)
                   + (quadR m (fun i j => L (S i) (S j)) (fun i => nu (S i)) x + c))).
      -- apply gauss_1d. exact H00.
      -- f_equal. unfold c'.
         assert (Hne : L O O <> 0) by lra.
         generalize (quadR_schur m L nu x Hne).
         generalize (quadR m (fun i j => L (S i) (S j)) (fun i => nu (S i)) x).
         generalize (quadR m (gschurR L) (gnuR L nu) x).
         generalize (sumR m (fun i => L (S i) O * x i)).
         generalize (ln (2 * PI / L O O)).
         intros l s q1 q2 E. simpl in E.
         replace ((nu O - s) * (nu O - s) / (2 * L O O)) with ((nu O - s) * ((nu O - s) * 1) / (2 * L O O)) by (field; exact Hne).
         lra.
  + apply (is_gint_val m _ (exp (gvalR m (gschurR L) (gnuR L nu) + c'))).
    * f_equal. unfold c'. ring.
    * apply IH. apply symR_gschurR. exact Hsym. exact Hpiv.
Qed.
Print Assumptions gauss_nd.

(* ------------------------------------------------------------------ *)
(* 6. sanity checks (non-vacuity)                                      *)
(* ------------------------------------------------------------------ *)
Definition idR : matR := fun i j => if Nat.eqb i j then 1 else 0.

(* int int exp(-(x0^2 + x1^2)/2) dx0 dx1 = 2 PI *)
Lemma gauss_2d_standard :
  is_gint 2 (fun x => exp (- (x 0%nat * x 0%nat + x 1%nat * x 1%nat) / 2)) (2 * PI).
Proof.
assert (Hpi : 0 < 2 * PI) by (generalize PI_RGT_0; lra).
apply (is_gint_val 2 _ (exp (gvalR 2 idR (fun _ => 0) + 0))).
- unfold gvalR, gschurR, gnuR, idR. simpl.
  replace (1 - 0 * 0 / 1) with 1 by field.
  replace (2 * PI / 1) with (2 * PI) by field.
  replace (ln (2 * PI) / 2 + 0 * 0 / (2 * 1) + (ln (2 * PI) / 2 + (0 - 0 * 0 / 1) * (0 - 0 * 0 / 1) / (2 * 1) + 0) + 0)
    with (ln (2 * PI)) by field.
  apply exp_ln. exact Hpi.
- apply (is_gint_ext 2 (fun x => exp (quadR 2 idR (fun _ => 0) x + 0))).
  + intros x. f_equal. unfold quadR, idR. simpl. field.
  + apply gauss_nd.
    * intros i j _ _. unfold idR. rewrite (Nat.eqb_sym i j). reflexivity.
    * simpl. unfold gschurR, idR. simpl. repeat split; lra.
Qed.

(* a correlated 2-D instance: L = [[2,1],[1,2]], nu = 0:  integral = 2 PI / sqrt 3 *)
Definition L21 : matR := fun i j => match i, j with
  | O, O => 2 | O, S O => 1 | S O, O => 1 | S O, S O => 2 | _, _ => 0 end.
Lemma gauss_2d_correlated :
  is_gint 2 (fun x => exp (quadR 2 L21 (fun _ => 0) x + 0)) (2 * PI / sqrt 3).
Proof.
assert (Hpi : 0 < PI) by apply PI_RGT_0.
assert (H3 : 0 < sqrt 3) by (apply sqrt_lt_R0; lra).
apply (is_gint_val 2 _ (exp (gvalR 2 L21 (fun _ => 0) + 0))).
- unfold gvalR, gschurR, gnuR, L21.
  replace (2 * PI / 2) with PI by field.
  replace (2 * PI / (2 - 1 * 1 / 2)) with (4 * PI / 3) by field.
  replace (ln PI / 2 + 0 * 0 / (2 * 2) + (ln (4 * PI / 3) / 2 + (0 - 0 * 1 / 2) * (0 - 0 * 1 / 2) / (2 * (2 - 1 * 1 / 2)) + 0) + 0)
    with ((ln PI + ln (4 * PI / 3)) / 2) by field.
  rewrite <- ln_mult by lra.
  rewrite exp_half_ln by nra.
  replace (PI * (4 * PI / 3)) with ((2 * PI / sqrt 3) * (2 * PI / sqrt 3)).
  + apply sqrt_square. apply Rlt_le. apply Rdiv_lt_0_compat; lra.
  + transitivity (4 * PI * PI / (sqrt 3 * sqrt 3)). field; lra. rewrite sqrt_sqrt by lra. field.
- apply gauss_nd.
  + intros i j Hi Hj. unfold L21.
    destruct i as [|[|i]]; destruct j as [|[|j]]; try reflexivity; lia.
  + simpl. unfold gschurR, L21. repeat split; lra.
Qed.
