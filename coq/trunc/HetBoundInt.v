(* C17 -- the Gaussian expectation of the heteroscedastic lower-bound integrand (exp link) EXISTS, in closed form, for an input
   of ANY dimension D, and it is below the expectation of the true log-density as soon as the latter exists.
   Setting: the weight is an (unnormalised) Gaussian density  W x = exp (quadR D L nu x + c)  with symR D L, gpivR D L; every
   noise unit has an AFFINE projected residual g x = linR D gl gl0 x, an AFFINE pre-activation h x = linR D hl hl0 x and constant
   variational parameters ws, wd; the homoscedastic quadratic form is a finite sum of products of affine forms
   q0 x = sum_k qc_k * linR D a_k a0_k x * linR D b_k b0_k x.
   The integral over R^D is the iterated improper Riemann integral `is_gint` of trunc/GaussND.v.
   1. completing the exponent: sLB_exp ws (h x) * W x is again an unnormalised Gaussian density, with precision
      L' = L + g1_exp ws * hl hl', shift nu' = nu + (1/2 - g1_exp ws * hl0) hl and a new constant (sLB_exp_complete);
   2. every term of (bound integrand) * W has an integral in closed form (gint_qterm, gint_sterm, gint_ldterm);
   3. hence so has the whole integrand (exp_bound_expectation_exists), with value `lb_value`;
   4. and that value is a lower bound of the expectation of the true log-density (C17_exp_lower_bound_nd): the only
      integrability hypothesis left is the one of the true log-density.
   HYPOTHESIS kept for every unit: gpivR D (hetL L ws hl), i.e. the pivots of L' = L + g1_exp ws * hl hl' are positive.  It holds
   whenever L is positive definite and 0 < ws, because then 0 < g1_exp ws (g1_exp_pos below) and L' = L + (positive) * hl hl' is
   again positive definite -- but "positive definite => positive pivots" is available only on the MathComp side of the development
   (proofs/SPD.v, proofs/Chol.v), not for the function-valued matrices matR used here.  For D = 1 it is proved below
   (gpivR_hetL_1), which shows that the hypotheses are satisfiable. *)
From Coq Require Import Reals Lra Lia List.
From Coquelicot Require Import Coquelicot.
From GT Require Import TruncGen C20_proofs GaussInt GaussND GaussMom HetBoundR HetGapR C17R MonoND.
Open Scope R_scope.

(* ------------------------------------------------------------------ *)
(* 0. generic facts: the zero function, finite sums of integrals       *)
(* ------------------------------------------------------------------ *)
Lemma is_RInt_gen_zero_line :
  is_RInt_gen (fun _ : R => 0) (Rbar_locally m_infty) (Rbar_locally p_infty) 0.
Proof.
pose proof (is_RInt_gen_scal _ 0 _ gauss_integral) as H.
match type of H with is_RInt_gen _ _ _ ?v =>
  assert (E : v = 0) by (unfold scal; simpl; unfold mult; simpl; ring); rewrite E in H end.
revert H. apply is_RInt_gen_ext_eq_line.
intros t. unfold scal; simpl; unfold mult; simpl; ring.
Qed.

Lemma is_gint_zero D : is_gint D (fun _ => 0) 0.
Proof.
induction D as [|m IH].
- exact (gint_O (fun _ => 0)).
- apply (gint_S m (fun _ => 0) (fun _ => 0) 0); [ | exact IH].
  intros x. exact is_RInt_gen_zero_line.
Qed.

Lemma is_gint_fold {A : Type} D (F : A -> vecR -> R) (V : A -> R) (l : list A) :
  List.Forall (fun a => is_gint D (F a) (V a)) l ->
  is_gint D (fun x => fold_right (fun a acc => F a x + acc) 0 l) (fold_right (fun a acc => V a + acc) 0 l).
Proof.
induction 1 as [|a l Ha Hl IH]; simpl.
- apply is_gint_zero.
- apply (is_gint_plus D (F a) _ (V a) _ Ha IH).
Qed.

Lemma fold_sum_map {A B : Type} (f : A -> B) (G : B -> R) (l : list A) :
  fold_right (fun b acc => G b + acc) 0 (map f l) = fold_right (fun a acc => G (f a) + acc) 0 l.
Proof. induction l as [|a l IH]; simpl; [reflexivity | now rewrite IH]. Qed.

Lemma fold_sum_mul {A : Type} (G : A -> R) (w : R) (l : list A) :
  fold_right (fun a acc => G a + acc) 0 l * w = fold_right (fun a acc => G a * w + acc) 0 l.
Proof. induction l as [|a l IH]; simpl; [ring | rewrite <- IH; ring]. Qed.

(* ------------------------------------------------------------------ *)
(* 1. completing the exponent of one unit                              *)
(* ------------------------------------------------------------------ *)
Definition hetL (L : matR) (ws : R) (hl : vecR) : matR := fun i j => L i j + g1_exp ws * hl i * hl j.
Definition hetnu (nu : vecR) (ws : R) (hl : vecR) (hl0 : R) : vecR := fun i => nu i + (/ 2 - g1_exp ws * hl0) * hl i.
Definition hetc (c ws hl0 : R) : R := c + hl0 / 2 - fom_exp ws - / 2 * g1_exp ws * (hl0 * hl0 - ws * ws).

Lemma symR_hetL D L ws hl : symR D L -> symR D (hetL L ws hl).
Proof. intros H i j Hi Hj. unfold hetL. rewrite (H i j Hi Hj). ring. Qed.

(* a rank-one update of the precision and a shift of nu along the same direction *)
Lemma quadR_rank1 D L nu (g k : R) hl x :
  quadR D (fun i j => L i j + g * hl i * hl j) (fun i => nu i + k * hl i) x
  = quadR D L nu x - / 2 * g * (sumR D (fun i => hl i * x i) * sumR D (fun i => hl i * x i))
    + k * sumR D (fun i => hl i * x i).
Proof.
unfold quadR.
rewrite (sumR_ext D (fun i => sumR D (fun j => (L i j + g * hl i * hl j) * x i * x j))
   (fun i => sumR D (fun j => L i j * x i * x j) + g * sumR D (fun j => (hl i * x i) * (hl j * x j)))).
2:{ intros i. rewrite <- sumR_scal_l, <- sumR_plus. apply sumR_ext. intros j. ring. }
rewrite sumR_plus, sumR_scal_l, <- sumR_prod.
rewrite (sumR_ext D (fun i => (nu i + k * hl i) * x i) (fun i => nu i * x i + k * (hl i * x i))).
2:{ intros i. ring. }
rewrite sumR_plus, sumR_scal_l.
generalize (sumR D (fun i => hl i * x i)).
generalize (sumR D (fun i => sumR D (fun j => L i j * x i * x j))).
generalize (sumR D (fun i => nu i * x i)).
intros B A s. field.
Qed.

Lemma het_exponent_alg (q s hl0 c fo g ws : R) :
  (s + hl0) / 2 - fo - / 2 * g * ((s + hl0) * (s + hl0) - ws * ws) + (q + c)
  = q - / 2 * g * (s * s) + (/ 2 - g * hl0) * s + (c + hl0 / 2 - fo - / 2 * g * (hl0 * hl0 - ws * ws)).
Proof. field. Qed.

Theorem sLB_exp_complete D L nu c ws hl hl0 x :
  sLB_exp ws (linR D hl hl0 x) * exp (quadR D L nu x + c)
  = exp (quadR D (hetL L ws hl) (hetnu nu ws hl hl0) x + hetc c ws hl0).
Proof.
unfold sLB_exp. rewrite <- exp_plus. f_equal.
unfold hetL, hetnu, hetc. rewrite quadR_rank1. unfold linR.
generalize (sumR D (fun i => hl i * x i)) (quadR D L nu x) (fom_exp ws) (g1_exp ws).
intros s q fo g. apply het_exponent_alg.
Qed.

(* the hypothesis gpivR D (hetL L ws hl) is satisfiable: positivity of g1_exp, and the case D = 1 *)
Lemma g1_exp_pos w : 0 < w -> 0 < g1_exp w.
Proof.
intros Hw. unfold g1_exp.
assert (Ht : 0 < tanh (w / 2)).
{ unfold tanh. apply Rdiv_lt_0_compat; [ | apply cosh_pos].
  unfold sinh. assert (exp (- (w / 2)) < exp (w / 2)) by (apply exp_increasing; lra). lra. }
apply Rdiv_lt_0_compat; [ | exact Hw]. lra.
Qed.

Lemma gpivR_hetL_1 L ws hl : 0 < ws -> gpivR 1 L -> gpivR 1 (hetL L ws hl).
Proof.
intros Hw [H _]. split; [ | exact I]. unfold hetL.
pose proof (g1_exp_pos ws Hw) as Hg.
assert (0 <= g1_exp ws * hl O * hl O) by (generalize (hl O); intros z; nra).
lra.
Qed.

(* ------------------------------------------------------------------ *)
(* 2. the integrals of the individual terms                            *)
(* ------------------------------------------------------------------ *)
Section Terms.
Variables (D : nat) (L : matR) (nu : vecR) (c : R).
Hypothesis Hsym : symR D L.
Hypothesis Hpiv : gpivR D L.

Definition EW : R := exp (gvalR D L nu + c).                 (* the integral of the weight *)

(* (i) one term of the homoscedastic quadratic form *)
Definition qterm := (R * (vecR * R) * (vecR * R))%type.
Definition qterm_at (t : qterm) (x : vecR) : R :=
  match t with (qc, (a, a0), (b, b0)) => qc * linR D a a0 x * linR D b b0 x end.
Definition qterm_val (t : qterm) : R :=
  match t with (qc, (a, a0), (b, b0)) =>
    qc * ((gcovR D L a b + gmeanR D L nu a a0 * gmeanR D L nu b b0) * EW) end.

Lemma gint_qterm (t : qterm) :
  is_gint D (fun x => qterm_at t x * exp (quadR D L nu x + c)) (qterm_val t).
Proof.
destruct t as [[qc [a a0]] [b b0]]. unfold qterm_at, qterm_val.
apply (is_gint_ext D (fun x => qc * (linR D a a0 x * linR D b b0 x * exp (quadR D L nu x + c)))).
- intros x. ring.
- apply is_gint_scal. apply gauss_nd_lin2; assumption.
Qed.

(* (ii) g^2 * sLB_exp ws h, by completing the exponent *)
Definition sterm_val (gl : vecR) (gl0 : R) (hl : vecR) (hl0 ws : R) : R :=
  (gcovR D (hetL L ws hl) gl gl
   + gmeanR D (hetL L ws hl) (hetnu nu ws hl hl0) gl gl0 * gmeanR D (hetL L ws hl) (hetnu nu ws hl hl0) gl gl0)
  * exp (gvalR D (hetL L ws hl) (hetnu nu ws hl hl0) + hetc c ws hl0).

Lemma gint_sterm gl gl0 hl hl0 ws : gpivR D (hetL L ws hl) ->
  is_gint D (fun x => linR D gl gl0 x * linR D gl gl0 x * sLB_exp ws (linR D hl hl0 x) * exp (quadR D L nu x + c))
            (sterm_val gl gl0 hl hl0 ws).
Proof.
intros Hp. unfold sterm_val.
apply (is_gint_ext D (fun x => linR D gl gl0 x * linR D gl gl0 x
                               * exp (quadR D (hetL L ws hl) (hetnu nu ws hl hl0) x + hetc c ws hl0))).
- intros x. rewrite <- sLB_exp_complete. ring.
- apply gauss_nd_lin2; [ apply symR_hetL; exact Hsym | exact Hp ].
Qed.

(* (iii) ldUB_exp wd h: a quadratic polynomial in h *)
Definition ldterm_val (hl : vecR) (hl0 wd : R) : R :=
  (gmeanR D L nu hl hl0 / 2 + fom_exp wd
   + / 2 * g1_exp wd * (gcovR D L hl hl + gmeanR D L nu hl hl0 * gmeanR D L nu hl hl0 - wd * wd)) * EW.

Lemma gint_ldterm hl hl0 wd :
  is_gint D (fun x => ldUB_exp wd (linR D hl hl0 x) * exp (quadR D L nu x + c)) (ldterm_val hl hl0 wd).
Proof.
unfold ldterm_val.
pose proof (gauss_nd D L nu c Hsym Hpiv) as H0.
pose proof (gauss_nd_lin D L nu c hl hl0 Hsym Hpiv) as H1.
pose proof (gauss_nd_lin2 D L nu c hl hl0 hl hl0 Hsym Hpiv) as H2.
fold EW in H0, H1, H2.
pose proof (is_gint_plus _ _ _ _ _
              (is_gint_plus _ _ _ _ _ (is_gint_scal _ _ _ (/ 2) H1)
                 (is_gint_scal _ _ _ (fom_exp wd - / 2 * g1_exp wd * (wd * wd)) H0))
              (is_gint_scal _ _ _ (/ 2 * g1_exp wd) H2)) as H.
simpl in H.
eapply is_gint_val; [ | eapply is_gint_ext; [ | exact H ] ].
- generalize (gmeanR D L nu hl hl0) (gcovR D L hl hl) (fom_exp wd) (g1_exp wd) EW. intros m v fo g e. field.
- intros x. unfold ldUB_exp.
  generalize (linR D hl hl0 x) (exp (quadR D L nu x + c)) (fom_exp wd) (g1_exp wd). intros h e fo g. field.
Qed.

(* (iv) constants *)
Lemma gint_const (k : R) : is_gint D (fun x => k * exp (quadR D L nu x + c)) (k * EW).
Proof. apply is_gint_scal. apply gauss_nd; assumption. Qed.

End Terms.

(* ------------------------------------------------------------------ *)
(* 3. assembly                                                         *)
(* ------------------------------------------------------------------ *)
(* a noise unit with affine projected residual and affine pre-activation *)
Record unitaff := UnitAff { agl : vecR; agl0 : R; ahl : vecR; ahl0 : R; aws : R; awd : R }.
Definition to_unitv (D : nat) (u : unitaff) : unitv :=
  UnitV (linR D (agl u) (agl0 u)) (linR D (ahl u) (ahl0 u)) (aws u) (awd u).
Definition at_x (D : nat) (x : vecR) (u : unitaff) : unit_ := at_v x (to_unitv D u).

Lemma map_at_x D x us : map (at_x D x) us = map (at_v x) (map (to_unitv D) us).
Proof. rewrite map_map. reflexivity. Qed.

(* the homoscedastic quadratic form *)
Definition q0_at (D : nat) (ts : list qterm) (x : vecR) : R := fold_right (fun t acc => qterm_at D t x + acc) 0 ts.

Definition usterm_val D L nu c (u : unitaff) : R := sterm_val D L nu c (agl u) (agl0 u) (ahl u) (ahl0 u) (aws u).
Definition uldterm_val D L nu c (u : unitaff) : R := ldterm_val D L nu c (ahl u) (ahl0 u) (awd u).

(* the closed form of the expectation of the bound integrand *)
Definition lb_value D L nu c (ts : list qterm) (ld0 c0 : R) (us : list unitaff) : R :=
  - / 2 * (fold_right (fun t acc => qterm_val D L nu c t + acc) 0 ts
           - fold_right (fun u acc => usterm_val D L nu c u + acc) 0 us)
  - / 2 * (ld0 * EW D L nu c + fold_right (fun u acc => uldterm_val D L nu c u + acc) 0 us)
  - c0 * EW D L nu c.

(* the bound integrand times the weight, term by term *)
Lemma logp_lb_weight D (ts : list qterm) ld0 c0 (us : list unitaff) (x : vecR) (w : R) :
  logp_lb sLB_exp ldUB_exp (q0_at D ts x) ld0 c0 (map (at_x D x) us) * w
  = - / 2 * (fold_right (fun t acc => qterm_at D t x * w + acc) 0 ts
             - fold_right (fun u acc => linR D (agl u) (agl0 u) x * linR D (agl u) (agl0 u) x
                                        * sLB_exp (aws u) (linR D (ahl u) (ahl0 u) x) * w + acc) 0 us)
    - / 2 * (ld0 * w + fold_right (fun u acc => ldUB_exp (awd u) (linR D (ahl u) (ahl0 u) x) * w + acc) 0 us)
    - c0 * w.
Proof.
unfold logp_lb, q0_at.
rewrite (fold_sum_map (at_x D x) (fun u => ug u * ug u * sLB_exp (uws u) (uh u))).
rewrite (fold_sum_map (at_x D x) (fun u => ldUB_exp (uwd u) (uh u))).
simpl.
rewrite <- (fold_sum_mul (fun t => qterm_at D t x) w).
rewrite <- (fold_sum_mul (fun u => linR D (agl u) (agl0 u) x * linR D (agl u) (agl0 u) x
                                   * sLB_exp (aws u) (linR D (ahl u) (ahl0 u) x)) w).
rewrite <- (fold_sum_mul (fun u => ldUB_exp (awd u) (linR D (ahl u) (ahl0 u) x)) w).
generalize (fold_right (fun t acc => qterm_at D t x + acc) 0 ts).
generalize (fold_right (fun u acc => linR D (agl u) (agl0 u) x * linR D (agl u) (agl0 u) x
                                     * sLB_exp (aws u) (linR D (ahl u) (ahl0 u) x) + acc) 0 us).
generalize (fold_right (fun u acc => ldUB_exp (awd u) (linR D (ahl u) (ahl0 u) x) + acc) 0 us).
intros T S Q. field.
Qed.

(* existence, under the pivot hypotheses only *)
Theorem exp_bound_expectation_exists_gen D L nu c (ts : list qterm) ld0 c0 (us : list unitaff) :
  symR D L -> gpivR D L -> List.Forall (fun u => gpivR D (hetL L (aws u) (ahl u))) us ->
  is_gint D (fun x => logp_lb sLB_exp ldUB_exp (q0_at D ts x) ld0 c0 (map (at_x D x) us) * exp (quadR D L nu x + c))
            (lb_value D L nu c ts ld0 c0 us).
Proof.
intros Hsym Hpiv Hus. unfold lb_value.
assert (HQ : is_gint D (fun x => fold_right (fun t acc => qterm_at D t x * exp (quadR D L nu x + c) + acc) 0 ts)
                       (fold_right (fun t acc => qterm_val D L nu c t + acc) 0 ts)).
{ apply (is_gint_fold D (fun t x => qterm_at D t x * exp (quadR D L nu x + c)) (qterm_val D L nu c)).
  apply Forall_forall. intros t _. apply gint_qterm; assumption. }
assert (HS : is_gint D (fun x => fold_right (fun u acc => linR D (agl u) (agl0 u) x * linR D (agl u) (agl0 u) x
                                   * sLB_exp (aws u) (linR D (ahl u) (ahl0 u) x) * exp (quadR D L nu x + c) + acc) 0 us)
                       (fold_right (fun u acc => usterm_val D L nu c u + acc) 0 us)).
{ apply (is_gint_fold D (fun u x => linR D (agl u) (agl0 u) x * linR D (agl u) (agl0 u) x
                                   * sLB_exp (aws u) (linR D (ahl u) (ahl0 u) x) * exp (quadR D L nu x + c))
                      (usterm_val D L nu c)).
  eapply Forall_impl; [ | exact Hus]. intros u Hu. apply gint_sterm; assumption. }
assert (HT : is_gint D (fun x => fold_right (fun u acc => ldUB_exp (awd u) (linR D (ahl u) (ahl0 u) x)
                                                          * exp (quadR D L nu x + c) + acc) 0 us)
                       (fold_right (fun u acc => uldterm_val D L nu c u + acc) 0 us)).
{ apply (is_gint_fold D (fun u x => ldUB_exp (awd u) (linR D (ahl u) (ahl0 u) x) * exp (quadR D L nu x + c))
                      (uldterm_val D L nu c)).
  apply Forall_forall. intros u _. apply gint_ldterm; assumption. }
pose proof (gint_const D L nu c Hsym Hpiv ld0) as Hld.
pose proof (gint_const D L nu c Hsym Hpiv (- c0)) as Hc0.
pose proof (is_gint_plus _ _ _ _ _
              (is_gint_plus _ _ _ _ _
                 (is_gint_scal _ _ _ (- / 2) (is_gint_plus _ _ _ _ _ HQ (is_gint_scal _ _ _ (-1) HS)))
                 (is_gint_scal _ _ _ (- / 2) (is_gint_plus _ _ _ _ _ Hld HT)))
              Hc0) as H.
eapply is_gint_val; [ | eapply is_gint_ext; [ | exact H ] ].
- simpl. ring.
- intros x. simpl. rewrite logp_lb_weight. ring.
Qed.
Print Assumptions exp_bound_expectation_exists_gen.

(* the hypotheses on the units, as in the statement of the task *)
Definition unit_ok D L (u : unitaff) : Prop := 0 < aws u /\ 0 < awd u /\ gpivR D (hetL L (aws u) (ahl u)).

Theorem exp_bound_expectation_exists D L nu c (ts : list qterm) ld0 c0 (us : list unitaff) :
  symR D L -> gpivR D L -> List.Forall (unit_ok D L) us ->
  is_gint D (fun x => logp_lb sLB_exp ldUB_exp (q0_at D ts x) ld0 c0 (map (at_x D x) us) * exp (quadR D L nu x + c))
            (lb_value D L nu c ts ld0 c0 us).
Proof.
intros Hsym Hpiv Hus. apply exp_bound_expectation_exists_gen; try assumption.
eapply Forall_impl; [ | exact Hus]. intros u [_ [_ H]]. exact H.
Qed.
Print Assumptions exp_bound_expectation_exists.

(* ------------------------------------------------------------------ *)
(* 4. the lower bound on the expectation of the true log-density        *)
(* ------------------------------------------------------------------ *)
Theorem C17_exp_lower_bound_nd D L nu c (ts : list qterm) ld0 c0 (us : list unitaff) :
  symR D L -> gpivR D L -> List.Forall (unit_ok D L) us ->
  forall vg : R,
  is_gint D (fun x => logp link_exp (q0_at D ts x) ld0 c0 (map (at_x D x) us) * exp (quadR D L nu x + c)) vg ->
  lb_value D L nu c ts ld0 c0 us <= vg.
Proof.
intros Hsym Hpiv Hus vg Hvg.
pose proof (exp_bound_expectation_exists D L nu c ts ld0 c0 us Hsym Hpiv Hus) as Hlb.
apply (mono_exp_bound_expectation_nd D (q0_at D ts) ld0 c0 (map (to_unitv D) us)
         (fun x => exp (quadR D L nu x + c)) (lb_value D L nu c ts ld0 c0 us) vg).
- intros x. apply gauss_weight_nonneg.
- apply Forall_forall. intros v Hv. apply in_map_iff in Hv. destruct Hv as [u [<- Hu]].
  rewrite Forall_forall in Hus. destruct (Hus u Hu) as [H1 [H2 _]]. simpl. split; assumption.
- revert Hlb. apply is_gint_ext. intros x. rewrite map_at_x. reflexivity.
- revert Hvg. apply is_gint_ext. intros x. rewrite map_at_x. reflexivity.
Qed.
Print Assumptions C17_exp_lower_bound_nd.

(* ------------------------------------------------------------------ *)
(* 5. readable instances                                               *)
(* ------------------------------------------------------------------ *)
(* ONE noise unit, q0 = ONE product of two affine forms: the closed form written out *)
Theorem C17_exp_lower_bound_nd_one_unit D L nu c qc a a0 b b0 ld0 c0 gl gl0 hl hl0 ws wd :
  symR D L -> gpivR D L -> 0 < ws -> 0 < wd -> gpivR D (hetL L ws hl) ->
  forall vg : R,
  is_gint D (fun x => logp link_exp (qc * linR D a a0 x * linR D b b0 x) ld0 c0
                        (Unit (linR D gl gl0 x) (linR D hl hl0 x) ws wd :: nil) * exp (quadR D L nu x + c)) vg ->
  - / 2 * (qc * ((gcovR D L a b + gmeanR D L nu a a0 * gmeanR D L nu b b0) * exp (gvalR D L nu + c))
           - (gcovR D (hetL L ws hl) gl gl
              + gmeanR D (hetL L ws hl) (hetnu nu ws hl hl0) gl gl0 * gmeanR D (hetL L ws hl) (hetnu nu ws hl hl0) gl gl0)
             * exp (gvalR D (hetL L ws hl) (hetnu nu ws hl hl0) + hetc c ws hl0))
  - / 2 * (ld0 * exp (gvalR D L nu + c)
           + (gmeanR D L nu hl hl0 / 2 + fom_exp wd
              + / 2 * g1_exp wd * (gcovR D L hl hl + gmeanR D L nu hl hl0 * gmeanR D L nu hl hl0 - wd * wd))
             * exp (gvalR D L nu + c))
  - c0 * exp (gvalR D L nu + c) <= vg.
Proof.
intros Hsym Hpiv Hws Hwd Hp vg Hvg.
pose proof (C17_exp_lower_bound_nd D L nu c ((qc, (a, a0), (b, b0)) :: nil) ld0 c0
              (UnitAff gl gl0 hl hl0 ws wd :: nil) Hsym Hpiv) as H.
unfold lb_value, usterm_val, uldterm_val, sterm_val, ldterm_val, qterm_val, EW in H. simpl in H.
rewrite !Rplus_0_r in H. apply H.
- constructor; [ | constructor]. repeat split; assumption.
- revert Hvg. apply is_gint_ext. intros x. unfold at_x, at_v, to_unitv, q0_at, qterm_at. simpl.
  rewrite Rplus_0_r. reflexivity.
Qed.
Print Assumptions C17_exp_lower_bound_nd_one_unit.

(* the bound integrand of the same instance HAS this expectation *)
Theorem exp_bound_expectation_exists_one_unit D L nu c qc a a0 b b0 ld0 c0 gl gl0 hl hl0 ws wd :
  symR D L -> gpivR D L -> gpivR D (hetL L ws hl) ->
  is_gint D (fun x => logp_lb sLB_exp ldUB_exp (qc * linR D a a0 x * linR D b b0 x) ld0 c0
                        (Unit (linR D gl gl0 x) (linR D hl hl0 x) ws wd :: nil) * exp (quadR D L nu x + c))
  (- / 2 * (qc * ((gcovR D L a b + gmeanR D L nu a a0 * gmeanR D L nu b b0) * exp (gvalR D L nu + c))
           - (gcovR D (hetL L ws hl) gl gl
              + gmeanR D (hetL L ws hl) (hetnu nu ws hl hl0) gl gl0 * gmeanR D (hetL L ws hl) (hetnu nu ws hl hl0) gl gl0)
             * exp (gvalR D (hetL L ws hl) (hetnu nu ws hl hl0) + hetc c ws hl0))
  - / 2 * (ld0 * exp (gvalR D L nu + c)
           + (gmeanR D L nu hl hl0 / 2 + fom_exp wd
              + / 2 * g1_exp wd * (gcovR D L hl hl + gmeanR D L nu hl hl0 * gmeanR D L nu hl hl0 - wd * wd))
             * exp (gvalR D L nu + c))
  - c0 * exp (gvalR D L nu + c)).
Proof.
intros Hsym Hpiv Hp.
pose proof (exp_bound_expectation_exists_gen D L nu c ((qc, (a, a0), (b, b0)) :: nil) ld0 c0
              (UnitAff gl gl0 hl hl0 ws wd :: nil) Hsym Hpiv) as H.
unfold lb_value, usterm_val, uldterm_val, sterm_val, ldterm_val, qterm_val, EW in H. simpl in H.
rewrite !Rplus_0_r in H.
eapply is_gint_ext; [ | apply H ].
- intros x. unfold at_x, at_v, to_unitv, q0_at, qterm_at. simpl. rewrite Rplus_0_r. reflexivity.
- constructor; [ exact Hp | constructor].
Qed.
Print Assumptions exp_bound_expectation_exists_one_unit.

(* D = 1: the pivot hypothesis on L' is a theorem, so nothing but positivity is assumed (the hypotheses are satisfiable) *)
Lemma symR_1 L : symR 1 L.
Proof. intros i j Hi Hj. assert (i = O) by lia. assert (j = O) by lia. subst. reflexivity. Qed.

Theorem C17_exp_lower_bound_1d L nu c (ts : list qterm) ld0 c0 (us : list unitaff) :
  0 < L O O -> List.Forall (fun u => 0 < aws u /\ 0 < awd u) us ->
  forall vg : R,
  is_gint 1 (fun x => logp link_exp (q0_at 1 ts x) ld0 c0 (map (at_x 1 x) us) * exp (quadR 1 L nu x + c)) vg ->
  lb_value 1 L nu c ts ld0 c0 us <= vg.
Proof.
intros HL Hus. apply C17_exp_lower_bound_nd.
- apply symR_1.
- split; [exact HL | exact I].
- eapply Forall_impl; [ | exact Hus]. intros u [H1 H2]. repeat split; try assumption.
  + unfold hetL. pose proof (g1_exp_pos _ H1) as Hg.
    assert (0 <= g1_exp (aws u) * ahl u O * ahl u O) by (generalize (ahl u O); intros z; nra). lra.
Qed.
Print Assumptions C17_exp_lower_bound_1d.
