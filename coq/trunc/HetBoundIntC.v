(* C17 -- the cosh-1 link analogue of trunc/HetBoundInt.v: the Gaussian expectation of the heteroscedastic lower-bound integrand
   (cosh - 1 link) EXISTS, in closed form, for an input of ANY dimension D, and it is below the expectation of the true
   log-density as soon as the latter exists.
   Setting (as in HetBoundInt.v): the weight is W x = exp (quadR D L nu x + c) with symR D L, gpivR D L; every noise unit has an
   affine projected residual g x = linR D gl gl0 x, an affine pre-activation h x = linR D hl hl0 x, constant ws, wd; q0 is a
   finite sum of products of affine forms.
   1. completing the exponent: cosh h - 1 = exp h / 2 + exp (- h) / 2 - exp (0 * h), and every exp (sg * h) * kLB_cosh ws h * W
      is again an unnormalised Gaussian density with precision Lc = L + g1_cosh ws * hl hl', shift nu + (sg - g1_cosh ws * hl0) hl
      and a new constant (kLB_cosh_tilt, sLB_cosh_complete): THREE Gaussians with the same precision, tilted by +hl, -hl, 0;
   2. every term of (bound integrand) * W has an integral in closed form (gint_sterm_cosh: three applications of gauss_nd_lin2;
      gint_ldterm_cosh: gauss_nd_lin2 + gauss_nd);
   3. hence so has the whole integrand (coshm1_bound_expectation_exists), with value `lb_value_cosh`;
   4. and that value is a lower bound of the expectation of the true log-density (C17_coshm1_lower_bound_nd).
   HYPOTHESIS kept for every unit: gpivR D (hetLc L ws hl); for D = 1 it is a theorem (gpivR_hetLc_1, C17_coshm1_lower_bound_1d). *)
From Coq Require Import Reals Lra Lia List.
From Coquelicot Require Import Coquelicot.
From GT Require Import TruncGen C20_proofs GaussInt GaussND GaussMom HetBoundR HetGapR C17R MonoND HetBoundInt.
Open Scope R_scope.

(* ------------------------------------------------------------------ *)
(* 1. completing the exponent of one unit                              *)
(* ------------------------------------------------------------------ *)
Definition hetLc (L : matR) (ws : R) (hl : vecR) : matR := fun i j => L i j + g1_cosh ws * hl i * hl j.
(* sg = 1, -1, 0: the tilt of exp (sg * h) *)
Definition hetnuc (nu : vecR) (ws : R) (hl : vecR) (hl0 sg : R) : vecR := fun i => nu i + (sg - g1_cosh ws * hl0) * hl i.
Definition hetcc (c ws hl0 sg : R) : R := c + sg * hl0 - ln (cosh ws) - / 2 * g1_cosh ws * (hl0 * hl0 - ws * ws).

Lemma symR_hetLc D L ws hl : symR D L -> symR D (hetLc L ws hl).
Proof. intros H i j Hi Hj. unfold hetLc. rewrite (H i j Hi Hj). ring. Qed.

Lemma hetc_exponent_alg (q s hl0 c lc g ws sg : R) :
  sg * (s + hl0) + (- lc - / 2 * g * ((s + hl0) * (s + hl0) - ws * ws)) + (q + c)
  = q - / 2 * g * (s * s) + (sg - g * hl0) * s + (c + sg * hl0 - lc - / 2 * g * (hl0 * hl0 - ws * ws)).
Proof. field. Qed.

(* one tilt *)
Lemma kLB_cosh_tilt D L nu c ws hl hl0 sg x :
  exp (sg * linR D hl hl0 x) * kLB_cosh ws (linR D hl hl0 x) * exp (quadR D L nu x + c)
  = exp (quadR D (hetLc L ws hl) (hetnuc nu ws hl hl0 sg) x + hetcc c ws hl0 sg).
Proof.
unfold kLB_cosh. rewrite <- !exp_plus. f_equal.
unfold hetLc, hetnuc, hetcc. rewrite quadR_rank1. unfold linR.
generalize (sumR D (fun i => hl i * x i)) (quadR D L nu x) (ln (cosh ws)) (g1_cosh ws).
intros s q lc g. apply hetc_exponent_alg.
Qed.

Lemma coshm1_split (h k w : R) :
  (cosh h - 1) * k * w = / 2 * (exp (1 * h) * k * w) + / 2 * (exp (-1 * h) * k * w) - exp (0 * h) * k * w.
Proof.
unfold cosh. rewrite Rmult_0_l, exp_0, Rmult_1_l.
replace (-1 * h) with (- h) by ring.
generalize (exp h) (exp (- h)). intros a b. field.
Qed.

Theorem sLB_cosh_complete D L nu c ws hl hl0 x :
  sLB_cosh ws (linR D hl hl0 x) * exp (quadR D L nu x + c)
  = / 2 * exp (quadR D (hetLc L ws hl) (hetnuc nu ws hl hl0 1) x + hetcc c ws hl0 1)
    + / 2 * exp (quadR D (hetLc L ws hl) (hetnuc nu ws hl hl0 (-1)) x + hetcc c ws hl0 (-1))
    - exp (quadR D (hetLc L ws hl) (hetnuc nu ws hl hl0 0) x + hetcc c ws hl0 0).
Proof.
unfold sLB_cosh. rewrite coshm1_split. rewrite !kLB_cosh_tilt. reflexivity.
Qed.

(* the hypothesis gpivR D (hetLc L ws hl) is satisfiable: positivity of g1_cosh, and the case D = 1 *)
Lemma g1_cosh_pos w : 0 < w -> 0 < g1_cosh w.
Proof.
intros Hw. unfold g1_cosh.
apply Rdiv_lt_0_compat; [ | exact Hw].
unfold tanh. apply Rdiv_lt_0_compat; [ | apply cosh_pos].
unfold sinh. assert (exp (- w) < exp w) by (apply exp_increasing; lra). lra.
Qed.

Lemma gpivR_hetLc_1 L ws hl : 0 < ws -> gpivR 1 L -> gpivR 1 (hetLc L ws hl).
Proof.
intros Hw [H _]. split; [ | exact I]. unfold hetLc.
pose proof (g1_cosh_pos ws Hw) as Hg.
assert (0 <= g1_cosh ws * hl O * hl O) by (generalize (hl O); intros z; nra).
lra.
Qed.

(* ------------------------------------------------------------------ *)
(* 2. the integrals of the individual terms                            *)
(* ------------------------------------------------------------------ *)
Section TermsC.
Variables (D : nat) (L : matR) (nu : vecR) (c : R).
Hypothesis Hsym : symR D L.
Hypothesis Hpiv : gpivR D L.

(* (ii) g^2 * sLB_cosh ws h: one tilted Gaussian second moment ... *)
Definition sterm_tilt_val (gl : vecR) (gl0 : R) (hl : vecR) (hl0 ws sg : R) : R :=
  (gcovR D (hetLc L ws hl) gl gl
   + gmeanR D (hetLc L ws hl) (hetnuc nu ws hl hl0 sg) gl gl0 * gmeanR D (hetLc L ws hl) (hetnuc nu ws hl hl0 sg) gl gl0)
  * exp (gvalR D (hetLc L ws hl) (hetnuc nu ws hl hl0 sg) + hetcc c ws hl0 sg).

Lemma gint_sterm_tilt gl gl0 hl hl0 ws sg : gpivR D (hetLc L ws hl) ->
  is_gint D (fun x => linR D gl gl0 x * linR D gl gl0 x
                      * exp (quadR D (hetLc L ws hl) (hetnuc nu ws hl hl0 sg) x + hetcc c ws hl0 sg))
            (sterm_tilt_val gl gl0 hl hl0 ws sg).
Proof.
intros Hp. unfold sterm_tilt_val.
apply gauss_nd_lin2; [ apply symR_hetLc; exact Hsym | exact Hp ].
Qed.

(* ... and the three of them *)
Definition sterm_val_cosh (gl : vecR) (gl0 : R) (hl : vecR) (hl0 ws : R) : R :=
  / 2 * sterm_tilt_val gl gl0 hl hl0 ws 1 + / 2 * sterm_tilt_val gl gl0 hl hl0 ws (-1)
  - sterm_tilt_val gl gl0 hl hl0 ws 0.

Lemma gint_sterm_cosh gl gl0 hl hl0 ws : gpivR D (hetLc L ws hl) ->
  is_gint D (fun x => linR D gl gl0 x * linR D gl gl0 x * sLB_cosh ws (linR D hl hl0 x) * exp (quadR D L nu x + c))
            (sterm_val_cosh gl gl0 hl hl0 ws).
Proof.
intros Hp. unfold sterm_val_cosh.
pose proof (gint_sterm_tilt gl gl0 hl hl0 ws 1 Hp) as H1.
pose proof (gint_sterm_tilt gl gl0 hl hl0 ws (-1) Hp) as H2.
pose proof (gint_sterm_tilt gl gl0 hl hl0 ws 0 Hp) as H3.
pose proof (is_gint_plus _ _ _ _ _
              (is_gint_plus _ _ _ _ _ (is_gint_scal _ _ _ (/ 2) H1) (is_gint_scal _ _ _ (/ 2) H2))
              (is_gint_scal _ _ _ (-1) H3)) as H.
simpl in H.
eapply is_gint_val; [ | eapply is_gint_ext; [ | exact H ] ].
- generalize (sterm_tilt_val gl gl0 hl hl0 ws 1) (sterm_tilt_val gl gl0 hl hl0 ws (-1))
             (sterm_tilt_val gl gl0 hl hl0 ws 0). intros a b d. ring.
- intros x.
  rewrite (Rmult_assoc (linR D gl gl0 x * linR D gl gl0 x) (sLB_cosh ws (linR D hl hl0 x))).
  rewrite sLB_cosh_complete.
  generalize (linR D gl gl0 x)
             (exp (quadR D (hetLc L ws hl) (hetnuc nu ws hl hl0 1) x + hetcc c ws hl0 1))
             (exp (quadR D (hetLc L ws hl) (hetnuc nu ws hl hl0 (-1)) x + hetcc c ws hl0 (-1)))
             (exp (quadR D (hetLc L ws hl) (hetnuc nu ws hl hl0 0) x + hetcc c ws hl0 0)).
  intros g a b d. ring.
Qed.

(* (iii) ldUB_cosh wd h: a quadratic polynomial in h *)
Definition ldterm_val_cosh (hl : vecR) (hl0 wd : R) : R :=
  (ln (cosh wd)
   + / 2 * g1_cosh wd * (gcovR D L hl hl + gmeanR D L nu hl hl0 * gmeanR D L nu hl hl0 - wd * wd)) * EW D L nu c.

Lemma gint_ldterm_cosh hl hl0 wd :
  is_gint D (fun x => ldUB_cosh wd (linR D hl hl0 x) * exp (quadR D L nu x + c)) (ldterm_val_cosh hl hl0 wd).
Proof.
unfold ldterm_val_cosh.
pose proof (gauss_nd D L nu c Hsym Hpiv) as H0.
pose proof (gauss_nd_lin2 D L nu c hl hl0 hl hl0 Hsym Hpiv) as H2.
fold (EW D L nu c) in H0, H2.
pose proof (is_gint_plus _ _ _ _ _
              (is_gint_scal _ _ _ (ln (cosh wd) - / 2 * g1_cosh wd * (wd * wd)) H0)
              (is_gint_scal _ _ _ (/ 2 * g1_cosh wd) H2)) as H.
simpl in H.
eapply is_gint_val; [ | eapply is_gint_ext; [ | exact H ] ].
- generalize (gmeanR D L nu hl hl0) (gcovR D L hl hl) (ln (cosh wd)) (g1_cosh wd) (EW D L nu c). intros m v lc g e. ring.
- intros x. unfold ldUB_cosh.
  generalize (linR D hl hl0 x) (exp (quadR D L nu x + c)) (ln (cosh wd)) (g1_cosh wd). intros h e lc g. ring.
Qed.

End TermsC.

(* ------------------------------------------------------------------ *)
(* 3. assembly                                                         *)
(* ------------------------------------------------------------------ *)
Definition usterm_val_cosh D L nu c (u : unitaff) : R :=
  sterm_val_cosh D L nu c (agl u) (agl0 u) (ahl u) (ahl0 u) (aws u).
Definition uldterm_val_cosh D L nu c (u : unitaff) : R := ldterm_val_cosh D L nu c (ahl u) (ahl0 u) (awd u).

(* the closed form of the expectation of the bound integrand *)
Definition lb_value_cosh D L nu c (ts : list qterm) (ld0 c0 : R) (us : list unitaff) : R :=
  - / 2 * (fold_right (fun t acc => qterm_val D L nu c t + acc) 0 ts
           - fold_right (fun u acc => usterm_val_cosh D L nu c u + acc) 0 us)
  - / 2 * (ld0 * EW D L nu c + fold_right (fun u acc => uldterm_val_cosh D L nu c u + acc) 0 us)
  - c0 * EW D L nu c.

(* the bound integrand times the weight, term by term *)
Lemma logp_lb_weight_cosh D (ts : list qterm) ld0 c0 (us : list unitaff) (x : vecR) (w : R) :
  logp_lb sLB_cosh ldUB_cosh (q0_at D ts x) ld0 c0 (map (at_x D x) us) * w
  = - / 2 * (fold_right (fun t acc => qterm_at D t x * w + acc) 0 ts
             - fold_right (fun u acc => linR D (agl u) (agl0 u) x * linR D (agl u) (agl0 u) x
                                        * sLB_cosh (aws u) (linR D (ahl u) (ahl0 u) x) * w + acc) 0 us)
    - / 2 * (ld0 * w + fold_right (fun u acc => ldUB_cosh (awd u) (linR D (ahl u) (ahl0 u) x) * w + acc) 0 us)
    - c0 * w.
Proof.
unfold logp_lb, q0_at.
rewrite (fold_sum_map (at_x D x) (fun u => ug u * ug u * sLB_cosh (uws u) (uh u))).
rewrite (fold_sum_map (at_x D x) (fun u => ldUB_cosh (uwd u) (uh u))).
simpl.
rewrite <- (fold_sum_mul (fun t => qterm_at D t x) w).
rewrite <- (fold_sum_mul (fun u => linR D (agl u) (agl0 u) x * linR D (agl u) (agl0 u) x
                                   * sLB_cosh (aws u) (linR D (ahl u) (ahl0 u) x)) w).
rewrite <- (fold_sum_mul (fun u => ldUB_cosh (awd u) (linR D (ahl u) (ahl0 u) x)) w).
generalize (fold_right (fun t acc => qterm_at D t x + acc) 0 ts).
generalize (fold_right (fun u acc => linR D (agl u) (agl0 u) x * linR D (agl u) (agl0 u) x
                                     * sLB_cosh (aws u) (linR D (ahl u) (ahl0 u) x) + acc) 0 us).
generalize (fold_right (fun u acc => ldUB_cosh (awd u) (linR D (ahl u) (ahl0 u) x) + acc) 0 us).
intros T S Q. field.
Qed.

(* existence, under the pivot hypotheses only *)
Theorem coshm1_bound_expectation_exists D L nu c (ts : list qterm) ld0 c0 (us : list unitaff) :
  symR D L -> gpivR D L -> List.Forall (fun u => gpivR D (hetLc L (aws u) (ahl u))) us ->
  is_gint D (fun x => logp_lb sLB_cosh ldUB_cosh (q0_at D ts x) ld0 c0 (map (at_x D x) us) * exp (quadR D L nu x + c))
            (lb_value_cosh D L nu c ts ld0 c0 us).
Proof.
intros Hsym Hpiv Hus. unfold lb_value_cosh.
assert (HQ : is_gint D (fun x => fold_right (fun t acc => qterm_at D t x * exp (quadR D L nu x + c) + acc) 0 ts)
                       (fold_right (fun t acc => qterm_val D L nu c t + acc) 0 ts)).
{ apply (is_gint_fold D (fun t x => qterm_at D t x * exp (quadR D L nu x + c)) (qterm_val D L nu c)).
  apply Forall_forall. intros t _. apply gint_qterm; assumption. }
assert (HS : is_gint D (fun x => fold_right (fun u acc => linR D (agl u) (agl0 u) x * linR D (agl u) (agl0 u) x
                                   * sLB_cosh (aws u) (linR D (ahl u) (ahl0 u) x) * exp (quadR D L nu x + c) + acc) 0 us)
                       (fold_right (fun u acc => usterm_val_cosh D L nu c u + acc) 0 us)).
{ apply (is_gint_fold D (fun u x => linR D (agl u) (agl0 u) x * linR D (agl u) (agl0 u) x
                                   * sLB_cosh (aws u) (linR D (ahl u) (ahl0 u) x) * exp (quadR D L nu x + c))
                      (usterm_val_cosh D L nu c)).
  eapply Forall_impl; [ | exact Hus]. intros u Hu. apply gint_sterm_cosh; assumption. }
assert (HT : is_gint D (fun x => fold_right (fun u acc => ldUB_cosh (awd u) (linR D (ahl u) (ahl0 u) x)
                                                          * exp (quadR D L nu x + c) + acc) 0 us)
                       (fold_right (fun u acc => uldterm_val_cosh D L nu c u + acc) 0 us)).
{ apply (is_gint_fold D (fun u x => ldUB_cosh (awd u) (linR D (ahl u) (ahl0 u) x) * exp (quadR D L nu x + c))
                      (uldterm_val_cosh D L nu c)).
  apply Forall_forall. intros u _. apply gint_ldterm_cosh; assumption. }
pose proof (gint_const D L nu c Hsym Hpiv ld0) as Hld.
pose proof (gint_const D L nu c Hsym Hpiv (- c0)) as Hc0.
pose proof (is_gint_plus _ _ _ _ _
              (is_gint_plus _ _ _ _ _
                 (is_gint_scal _ _ _ (- / 2) (is_gint_plus _ _ _ _ _ HQ (is_gint_scal _ _ _ (-1) HS)))
                 (is_gint_scal _ _ _ (- / 2) (is_gint_plus _ _ _ _ _ Hld HT)))
              Hc0) as H.
eapply is_gint_val; [ | eapply is_gint_ext; [ | exact H ] ].
- simpl. ring.
- intros x. simpl. rewrite logp_lb_weight_cosh. ring.
Qed.
Print Assumptions coshm1_bound_expectation_exists.

(* the hypotheses on the units *)
Definition unit_ok_cosh D L (u : unitaff) : Prop := 0 < aws u /\ 0 < awd u /\ gpivR D (hetLc L (aws u) (ahl u)).

Theorem coshm1_bound_expectation_exists_ok D L nu c (ts : list qterm) ld0 c0 (us : list unitaff) :
  symR D L -> gpivR D L -> List.Forall (unit_ok_cosh D L) us ->
  is_gint D (fun x => logp_lb sLB_cosh ldUB_cosh (q0_at D ts x) ld0 c0 (map (at_x D x) us) * exp (quadR D L nu x + c))
            (lb_value_cosh D L nu c ts ld0 c0 us).
Proof.
intros Hsym Hpiv Hus. apply coshm1_bound_expectation_exists; try assumption.
eapply Forall_impl; [ | exact Hus]. intros u [_ [_ H]]. exact H.
Qed.
Print Assumptions coshm1_bound_expectation_exists_ok.

(* ------------------------------------------------------------------ *)
(* 4. the lower bound on the expectation of the true log-density        *)
(* ------------------------------------------------------------------ *)
Theorem C17_coshm1_lower_bound_nd D L nu c (ts : list qterm) ld0 c0 (us : list unitaff) :
  symR D L -> gpivR D L -> List.Forall (unit_ok_cosh D L) us ->
  forall vg : R,
  is_gint D (fun x => logp link_coshm1 (q0_at D ts x) ld0 c0 (map (at_x D x) us) * exp (quadR D L nu x + c)) vg ->
  lb_value_cosh D L nu c ts ld0 c0 us <= vg.
Proof.
intros Hsym Hpiv Hus vg Hvg.
pose proof (coshm1_bound_expectation_exists_ok D L nu c ts ld0 c0 us Hsym Hpiv Hus) as Hlb.
apply (mono_coshm1_bound_expectation_nd D (q0_at D ts) ld0 c0 (map (to_unitv D) us)
         (fun x => exp (quadR D L nu x + c)) (lb_value_cosh D L nu c ts ld0 c0 us) vg).
- intros x. apply gauss_weight_nonneg.
- apply Forall_forall. intros v Hv. apply in_map_iff in Hv. destruct Hv as [u [<- Hu]].
  rewrite Forall_forall in Hus. destruct (Hus u Hu) as [H1 [H2 _]]. simpl. split; assumption.
- revert Hlb. apply is_gint_ext. intros x. rewrite map_at_x. reflexivity.
- revert Hvg. apply is_gint_ext. intros x. rewrite map_at_x. reflexivity.
Qed.
Print Assumptions C17_coshm1_lower_bound_nd.

(* ------------------------------------------------------------------ *)
(* 5. readable instances                                               *)
(* ------------------------------------------------------------------ *)
(* ONE noise unit, q0 = ONE product of two affine forms: the closed form written out (three tilted Gaussians) *)
Theorem C17_coshm1_lower_bound_nd_one_unit D L nu c qc a a0 b b0 ld0 c0 gl gl0 hl hl0 ws wd :
  symR D L -> gpivR D L -> 0 < ws -> 0 < wd -> gpivR D (hetLc L ws hl) ->
  forall vg : R,
  is_gint D (fun x => logp link_coshm1 (qc * linR D a a0 x * linR D b b0 x) ld0 c0
                        (Unit (linR D gl gl0 x) (linR D hl hl0 x) ws wd :: nil) * exp (quadR D L nu x + c)) vg ->
  let M := fun sg =>
    (gcovR D (hetLc L ws hl) gl gl
     + gmeanR D (hetLc L ws hl) (hetnuc nu ws hl hl0 sg) gl gl0 * gmeanR D (hetLc L ws hl) (hetnuc nu ws hl hl0 sg) gl gl0)
    * exp (gvalR D (hetLc L ws hl) (hetnuc nu ws hl hl0 sg) + hetcc c ws hl0 sg) in
  - / 2 * (qc * ((gcovR D L a b + gmeanR D L nu a a0 * gmeanR D L nu b b0) * exp (gvalR D L nu + c))
           - (/ 2 * M 1 + / 2 * M (-1) - M 0))
  - / 2 * (ld0 * exp (gvalR D L nu + c)
           + (ln (cosh wd)
              + / 2 * g1_cosh wd * (gcovR D L hl hl + gmeanR D L nu hl hl0 * gmeanR D L nu hl hl0 - wd * wd))
             * exp (gvalR D L nu + c))
  - c0 * exp (gvalR D L nu + c) <= vg.
Proof.
intros Hsym Hpiv Hws Hwd Hp vg Hvg M.
pose proof (C17_coshm1_lower_bound_nd D L nu c ((qc, (a, a0), (b, b0)) :: nil) ld0 c0
              (UnitAff gl gl0 hl hl0 ws wd :: nil) Hsym Hpiv) as H.
unfold lb_value_cosh, usterm_val_cosh, uldterm_val_cosh, sterm_val_cosh, sterm_tilt_val, ldterm_val_cosh,
       qterm_val, EW in H. simpl in H.
rewrite !Rplus_0_r in H. unfold M. apply H.
- constructor; [ | constructor]. repeat split; assumption.
- revert Hvg. apply is_gint_ext. intros x. unfold at_x, at_v, to_unitv, q0_at, qterm_at. simpl.
  rewrite Rplus_0_r. reflexivity.
Qed.
Print Assumptions C17_coshm1_lower_bound_nd_one_unit.

(* D = 1: the pivot hypothesis on Lc is a theorem, so nothing but positivity is assumed (the hypotheses are satisfiable) *)
Theorem coshm1_bound_expectation_exists_1d L nu c (ts : list qterm) ld0 c0 (us : list unitaff) :
  0 < L O O -> List.Forall (fun u => 0 < aws u) us ->
  is_gint 1 (fun x => logp_lb sLB_cosh ldUB_cosh (q0_at 1 ts x) ld0 c0 (map (at_x 1 x) us) * exp (quadR 1 L nu x + c))
            (lb_value_cosh 1 L nu c ts ld0 c0 us).
Proof.
intros HL Hus. apply coshm1_bound_expectation_exists.
- apply symR_1.
- split; [exact HL | exact I].
- eapply Forall_impl; [ | exact Hus]. intros u H1. apply gpivR_hetLc_1; [exact H1 | split; [exact HL | exact I]].
Qed.
Print Assumptions coshm1_bound_expectation_exists_1d.

Theorem C17_coshm1_lower_bound_1d L nu c (ts : list qterm) ld0 c0 (us : list unitaff) :
  0 < L O O -> List.Forall (fun u => 0 < aws u /\ 0 < awd u) us ->
  forall vg : R,
  is_gint 1 (fun x => logp link_coshm1 (q0_at 1 ts x) ld0 c0 (map (at_x 1 x) us) * exp (quadR 1 L nu x + c)) vg ->
  lb_value_cosh 1 L nu c ts ld0 c0 us <= vg.
Proof.
intros HL Hus. apply C17_coshm1_lower_bound_nd.
- apply symR_1.
- split; [exact HL | exact I].
- eapply Forall_impl; [ | exact Hus]. intros u [H1 H2]. repeat split; try assumption.
  apply gpivR_hetLc_1; [exact H1 | split; [exact HL | exact I]].
Qed.
Print Assumptions C17_coshm1_lower_bound_1d.
