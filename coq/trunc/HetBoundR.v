From Coq Require Import Reals Lra Lia List.
From Coquelicot Require Import Coquelicot.
Open Scope R_scope.

Lemma exp_le a b : a <= b -> exp a <= exp b.
Proof. intros [H|H]; [left; now apply exp_increasing | right; now rewrite H]. Qed.

Lemma incr_from_deriv (f df : R -> R) a b :
  a <= b -> (forall x, a <= x <= b -> is_derive f x (df x)) ->
  (forall x, a <= x <= b -> 0 <= df x) -> f a <= f b.
Proof.
  intros Hab Hd Hs.
  destruct (MVT_gen f a b df) as [c [Hc He]].
  - rewrite Rmin_left, Rmax_right by lra. intros x Hx; apply Hd; lra.
  - rewrite Rmin_left, Rmax_right by lra. intros x Hx.
    apply continuity_pt_filterlim.
    apply (ex_derive_continuous f x). exists (df x). now apply Hd.
  - rewrite Rmin_left, Rmax_right in Hc by lra.
    assert (0 <= df c * (b - a)) by (apply Rmult_le_pos; [now apply Hs | lra]).
    lra.
Qed.

Lemma cosh_opp h : cosh (- h) = cosh h.
Proof. unfold cosh. rewrite Ropp_involutive. lra. Qed.

Lemma sinh_opp h : sinh (- h) = - sinh h.
Proof. unfold sinh. rewrite Ropp_involutive. lra. Qed.

Lemma tanh_opp h : tanh (- h) = - tanh h.
Proof. unfold tanh. rewrite cosh_opp, sinh_opp. unfold Rdiv. ring. Qed.

Lemma cosh_pos h : 0 < cosh h.
Proof. unfold cosh. generalize (exp_pos h) (exp_pos (-h)). lra. Qed.

Lemma EF_ge2 E F : 0 < E -> 0 < F -> E * F = 1 -> 2 <= E + F.
Proof.
  intros HE HF HEF.
  assert (H1: 0 <= (E - 1) * (E - 1)) by apply (Rle_0_sqr (E-1)).
  assert (H2: 0 <= (E - 1) * (E - 1) * F) by (apply Rmult_le_pos; lra).
  replace ((E - 1) * (E - 1) * F) with (E * (E * F) - 2 * (E * F) + F) in H2 by ring.
  rewrite HEF in H2. lra.
Qed.

Lemma exp_mul_opp x : exp x * exp (- x) = 1.
Proof. rewrite <- exp_plus, Rplus_opp_r; apply exp_0. Qed.

Lemma cosh_ge1 h : 1 <= cosh h.
Proof.
  unfold cosh. generalize (EF_ge2 _ _ (exp_pos h) (exp_pos (-h)) (exp_mul_opp h)). lra.
Qed.

(* sinh t cosh t >= t *)
Lemma sinhcosh_ge t : 0 <= t -> t <= sinh t * cosh t.
Proof.
  intros Ht.
  pose (k := fun t => (exp t - exp (- t)) / 2 * ((exp t + exp (- t)) / 2) - t).
  pose (dk := fun t => (exp t * exp t + exp (- t) * exp (- t)) / 2 - 1).
  assert (Hk : k 0 <= k t).
  { apply (incr_from_deriv k dk); auto.
    - intros x _. unfold k, dk. auto_derive; auto. field.
    - intros x _. unfold dk.
      assert (H : exp x * exp (- x) = 1) by (rewrite <- exp_plus, Rplus_opp_r; apply exp_0).
      generalize H. generalize (exp x) (exp (-x)). intros E F HEF. generalize (Rle_0_sqr (E - F)). unfold Rsqr. nra. }
  unfold k in Hk. rewrite Ropp_0, exp_0 in Hk. unfold sinh, cosh. lra.
Qed.

Lemma tanh_ratio a b : 0 < a -> a <= b -> tanh b / b <= tanh a / a.
Proof.
  intros Ha Hab.
  pose (g := fun t => - ((exp t - exp (- t)) / 2 / ((exp t + exp (- t)) / 2) / t)).
  pose (dg := fun t => (sinh t * cosh t - t) / (t * t * (cosh t * cosh t))).
  assert (Hg : g a <= g b).
  { apply (incr_from_deriv g dg); auto.
    - intros x Hx. unfold g, dg. auto_derive.
      + generalize (exp_pos x) (exp_pos (-x)). repeat split; lra.
      + unfold sinh, cosh.
        assert (H : exp x * exp (- x) = 1) by (rewrite <- exp_plus, Rplus_opp_r; apply exp_0).
        generalize (exp_pos x) (exp_pos (-x)) H. generalize (exp x) (exp (-x)). intros E F HE HF HEF.
        field_simplify_eq; [ | split; lra ].
        replace (16 * E * F * x) with (16 * (E * F) * x) by ring. rewrite HEF. ring.
    - intros x Hx. unfold dg. apply Rmult_le_pos.
      + generalize (sinhcosh_ge x). lra.
      + left. apply Rinv_0_lt_compat. generalize (cosh_pos x). intros. 
        apply Rmult_lt_0_compat; nra. }
  unfold g in Hg. unfold tanh, sinh, cosh. lra.
Qed.

Lemma tanh_ratio_mul a b : 0 < a -> a <= b -> tanh b * a <= tanh a * b.
Proof.
  intros Ha Hab. generalize (tanh_ratio a b Ha Hab). intros H.
  apply (Rmult_le_compat_r (a * b)) in H; [ | nra ].
  replace (tanh b / b * (a * b)) with (tanh b * a) in H by (field; lra).
  replace (tanh a / a * (a * b)) with (tanh a * b) in H by (field; lra).
  exact H.
Qed.

Lemma tanh_0 : tanh 0 = 0.
Proof. unfold tanh. rewrite sinh_0. unfold Rdiv. ring. Qed.

Lemma lncosh_deriv c x :
  is_derive (fun h => c * (h * h) - ln ((exp h + exp (- h)) / 2)) x (2 * c * x - tanh x).
Proof.
  auto_derive.
  - generalize (exp_pos x) (exp_pos (-x)). lra.
  - unfold tanh, sinh, cosh. generalize (exp_pos x) (exp_pos (-x)). generalize (exp x) (exp (-x)).
    intros E F HE HF. field. lra.
Qed.

Lemma lncosh_bound_nonneg h w : 0 < w -> 0 <= h ->
  ln (cosh h) <= ln (cosh w) + tanh w / (2 * w) * (h * h - w * w).
Proof.
  intros Hw Hh.
  set (c := tanh w / (2 * w)).
  pose (phi := fun h => c * (h * h) - ln ((exp h + exp (- h)) / 2)).
  assert (Hc : 2 * c * w = tanh w) by (unfold c; field; lra).
  assert (Hphi : phi w <= phi h).
  { destruct (Rle_dec h w) as [Hhw | Hhw].
    - (* - phi increasing on [h, w] *)
      assert (H : - phi h <= - phi w); [ | lra ].
      apply (incr_from_deriv (fun x => - phi x) (fun x => - (2 * c * x - tanh x))); auto.
      + intros x Hx. apply (is_derive_opp phi). apply lncosh_deriv.
      + intros x Hx. destruct (Req_dec x 0) as [-> | Hx0].
        * rewrite tanh_0. lra.
        * assert (Hxp : 0 < x) by lra.
          generalize (tanh_ratio_mul x w Hxp (proj2 Hx)). intros H.
          assert (2 * c * x * w <= tanh x * w); [ | nra ].
          replace (2 * c * x * w) with (2 * c * w * x) by ring. rewrite Hc. lra.
    - assert (Hwh : w <= h) by lra.
      apply (incr_from_deriv phi (fun x => 2 * c * x - tanh x)); auto.
      + intros x Hx. apply lncosh_deriv.
      + intros x Hx.
        generalize (tanh_ratio_mul w x Hw (proj1 Hx)). intros H.
        assert (tanh x * w <= 2 * c * x * w); [ | nra ].
        replace (2 * c * x * w) with (2 * c * w * x) by ring. rewrite Hc. lra. }
  unfold phi in Hphi. fold (cosh h) in Hphi. fold (cosh w) in Hphi. lra.
Qed.

Lemma lncosh_bound h w : 0 < w -> ln (cosh h) <= ln (cosh w) + tanh w / (2 * w) * (h * h - w * w).
Proof.
  intros Hw. destruct (Rle_dec 0 h) as [Hh | Hh].
  - now apply lncosh_bound_nonneg.
  - rewrite <- (cosh_opp h). replace (h * h) with ((- h) * (- h)) by ring.
    apply lncosh_bound_nonneg; lra.
Qed.

Lemma cosh_even h : cosh (- h) = cosh h.
Proof. apply cosh_opp. Qed.

Lemma lncosh_bound_tight w : 0 < w -> ln (cosh w) = ln (cosh w) + tanh w / (2 * w) * (w * w - w * w).
Proof. intros Hw. replace (w * w - w * w) with 0 by ring. ring. Qed.

Lemma log1p_bound h w : -1 < h -> -1 < w -> ln (1 + h) <= ln (1 + w) + (h - w) / (1 + w).
Proof.
  intros Hh Hw.
  rewrite <- (ln_exp ((h - w) / (1 + w))).
  rewrite <- ln_mult; [ | lra | apply exp_pos ].
  apply ln_le; [ lra | ].
  generalize (exp_ineq1_le ((h - w) / (1 + w))). intros H.
  apply (Rmult_le_compat_l (1 + w)) in H; [ | lra ].
  replace ((1 + w) * (1 + (h - w) / (1 + w))) with (1 + h) in H by (field; lra).
  exact H.
Qed.

(* ------------------------------------------------------------------ *)
(* Definitions                                                        *)
(* ------------------------------------------------------------------ *)

(* link functions *)
Definition link_exp (h : R) : R := exp h.
Definition link_coshm1 (h : R) : R := cosh h - 1.
Definition link_relu (h : R) : R := Rmax h 0.
Definition link_step (h : R) : R := if Rle_dec 0 h then 1 else 0.
Definition sfun (link : R -> R) (h : R) : R := link h / (1 + link h).

(* exp link *)
Definition fom_exp (w : R) : R := ln (cosh (w / 2)) + ln 2.
Definition g1_exp (w : R) : R := tanh (w / 2) / 2 / w.
Definition sLB_exp (w h : R) : R := exp (h / 2 - fom_exp w - / 2 * g1_exp w * (h * h - w * w)).
Definition ldUB_exp (w h : R) : R := h / 2 + fom_exp w + / 2 * g1_exp w * (h * h - w * w).

(* cosh-1 link *)
Definition g1_cosh (w : R) : R := tanh w / w.
Definition kLB_cosh (w h : R) : R := exp (- ln (cosh w) - / 2 * g1_cosh w * (h * h - w * w)).
Definition sLB_cosh (w h : R) : R := (cosh h - 1) * kLB_cosh w h.
Definition ldUB_cosh (w h : R) : R := ln (cosh w) + / 2 * g1_cosh w * (h * h - w * w).

(* rectified-linear link *)
Definition kLB_relu (w h : R) : R := exp (- h / (1 + w) - ln (1 + w) + w / (1 + w)).
Definition sLB_relu (w h : R) : R := if Rle_dec 0 h then h * kLB_relu w h else 0.
Definition ldUB_relu (w h : R) : R := if Rle_dec 0 h then ln (1 + w) + (h - w) / (1 + w) else 0.

(* ------------------------------------------------------------------ *)
(* exp link                                                           *)
(* ------------------------------------------------------------------ *)

Lemma one_plus_exp h : 1 + exp h = 2 * exp (h / 2) * cosh (h / 2).
Proof.
  unfold cosh.
  replace (2 * exp (h / 2) * ((exp (h / 2) + exp (- (h / 2))) / 2))
    with (exp (h / 2) * exp (h / 2) + exp (h / 2) * exp (- (h / 2))) by field.
  rewrite exp_mul_opp, <- exp_plus. replace (h / 2 + h / 2) with h by field. ring.
Qed.

Lemma log1pexp h : ln (1 + exp h) = ln 2 + h / 2 + ln (cosh (h / 2)).
Proof.
  rewrite one_plus_exp.
  rewrite ln_mult; [ | generalize (exp_pos (h / 2)); lra | apply cosh_pos ].
  rewrite ln_mult; [ | lra | apply exp_pos ].
  rewrite ln_exp. reflexivity.
Qed.

Lemma sfun_exp_eq h : sfun link_exp h = exp (h - ln (1 + exp h)).
Proof.
  unfold sfun, link_exp. unfold Rminus. rewrite exp_plus, exp_Ropp, exp_ln.
  - reflexivity.
  - generalize (exp_pos h); lra.
Qed.

Lemma sLB_exp_eq w h : sLB_exp w h = exp (h - ldUB_exp w h).
Proof. unfold sLB_exp, ldUB_exp. f_equal. field. Qed.

Theorem exp_ldUB h w : 0 < w -> ln (1 + link_exp h) <= ldUB_exp w h.
Proof.
  intros Hw. unfold link_exp, ldUB_exp, fom_exp, g1_exp. rewrite log1pexp.
  assert (Hw2 : 0 < w / 2) by lra.
  generalize (lncosh_bound (h / 2) (w / 2) Hw2). intros H.
  replace (/ 2 * (tanh (w / 2) / 2 / w) * (h * h - w * w))
    with (tanh (w / 2) / (2 * (w / 2)) * (h / 2 * (h / 2) - w / 2 * (w / 2))) by (field; lra).
  lra.
Qed.

Theorem exp_sLB h w : 0 < w -> sLB_exp w h <= sfun link_exp h.
Proof.
  intros Hw. rewrite sLB_exp_eq, sfun_exp_eq. apply exp_le.
  generalize (exp_ldUB h w Hw). unfold link_exp. lra.
Qed.

Lemma exp_ldUB_tight_pos w : 0 < w -> ldUB_exp w w = ln (1 + link_exp w).
Proof.
  intros Hw. unfold link_exp, ldUB_exp, fom_exp. rewrite log1pexp.
  replace (w * w - w * w) with 0 by ring. ring.
Qed.

Lemma exp_ldUB_tight_neg w : 0 < w -> ldUB_exp w (- w) = ln (1 + link_exp (- w)).
Proof.
  intros Hw. unfold link_exp, ldUB_exp, fom_exp. rewrite log1pexp.
  replace (- w / 2) with (- (w / 2)) by field. rewrite cosh_opp.
  replace (- w * - w - w * w) with 0 by ring. ring.
Qed.

Theorem exp_tight w : 0 < w ->
  sLB_exp w w = sfun link_exp w /\ sLB_exp w (- w) = sfun link_exp (- w) /\
  ldUB_exp w w = ln (1 + link_exp w) /\ ldUB_exp w (- w) = ln (1 + link_exp (- w)).
Proof.
  intros Hw.
  generalize (exp_ldUB_tight_pos w Hw) (exp_ldUB_tight_neg w Hw). intros H1 H2.
  repeat split; auto.
  - rewrite sLB_exp_eq, sfun_exp_eq, H1. reflexivity.
  - rewrite sLB_exp_eq, sfun_exp_eq, H2. reflexivity.
Qed.

(* ------------------------------------------------------------------ *)
(* cosh - 1 link                                                      *)
(* ------------------------------------------------------------------ *)

Lemma kLB_cosh_eq w h : kLB_cosh w h = exp (- ldUB_cosh w h).
Proof. unfold kLB_cosh, ldUB_cosh. f_equal. ring. Qed.

Lemma inv_cosh_eq h : / cosh h = exp (- ln (cosh h)).
Proof. rewrite exp_Ropp, exp_ln; [ reflexivity | apply cosh_pos ]. Qed.

Lemma link_coshm1_plus h : 1 + link_coshm1 h = cosh h.
Proof. unfold link_coshm1. ring. Qed.

Theorem cosh_ldUB h w : 0 < w -> ln (1 + link_coshm1 h) <= ldUB_cosh w h.
Proof.
  intros Hw. rewrite link_coshm1_plus. unfold ldUB_cosh, g1_cosh.
  generalize (lncosh_bound h w Hw).
  replace (/ 2 * (tanh w / w) * (h * h - w * w)) with (tanh w / (2 * w) * (h * h - w * w)) by (field; lra).
  lra.
Qed.

Theorem cosh_kLB h w : 0 < w -> kLB_cosh w h <= / cosh h.
Proof.
  intros Hw. rewrite kLB_cosh_eq, inv_cosh_eq. apply exp_le.
  generalize (cosh_ldUB h w Hw). rewrite link_coshm1_plus. lra.
Qed.

Lemma sfun_coshm1_eq h : sfun link_coshm1 h = (cosh h - 1) * / cosh h.
Proof. unfold sfun. rewrite link_coshm1_plus. unfold link_coshm1. reflexivity. Qed.

Theorem cosh_sLB h w : 0 < w -> sLB_cosh w h <= sfun link_coshm1 h.
Proof.
  intros Hw. rewrite sfun_coshm1_eq. unfold sLB_cosh.
  apply Rmult_le_compat_l.
  - generalize (cosh_ge1 h). lra.
  - now apply cosh_kLB.
Qed.

Lemma cosh_ldUB_tight_pos w : 0 < w -> ldUB_cosh w w = ln (1 + link_coshm1 w).
Proof.
  intros Hw. rewrite link_coshm1_plus. unfold ldUB_cosh.
  replace (w * w - w * w) with 0 by ring. ring.
Qed.

Lemma cosh_ldUB_tight_neg w : 0 < w -> ldUB_cosh w (- w) = ln (1 + link_coshm1 (- w)).
Proof.
  intros Hw. rewrite link_coshm1_plus, cosh_opp. unfold ldUB_cosh.
  replace (- w * - w - w * w) with 0 by ring. ring.
Qed.

Theorem cosh_tight w : 0 < w ->
  sLB_cosh w w = sfun link_coshm1 w /\ ldUB_cosh w w = ln (1 + link_coshm1 w) /\
  sLB_cosh w (- w) = sfun link_coshm1 (- w) /\ ldUB_cosh w (- w) = ln (1 + link_coshm1 (- w)).
Proof.
  intros Hw.
  generalize (cosh_ldUB_tight_pos w Hw) (cosh_ldUB_tight_neg w Hw). intros H1 H2.
  repeat split; auto.
  - rewrite sfun_coshm1_eq. unfold sLB_cosh. rewrite kLB_cosh_eq, H1, link_coshm1_plus, <- inv_cosh_eq.
    reflexivity.
  - rewrite sfun_coshm1_eq. unfold sLB_cosh. rewrite kLB_cosh_eq, H2, link_coshm1_plus, <- inv_cosh_eq.
    reflexivity.
Qed.

(* ------------------------------------------------------------------ *)
(* rectified-linear link                                              *)
(* ------------------------------------------------------------------ *)

Lemma relu_kLB h w : 0 <= w -> 0 <= h -> kLB_relu w h <= / (1 + h).
Proof.
  intros Hw Hh. unfold kLB_relu.
  replace (/ (1 + h)) with (exp (- ln (1 + h))) by (rewrite exp_Ropp, exp_ln; [ reflexivity | lra ]).
  apply exp_le.
  assert (Hh1 : -1 < h) by lra. assert (Hw1 : -1 < w) by lra.
  generalize (log1p_bound h w Hh1 Hw1).
  replace (- h / (1 + w) - ln (1 + w) + w / (1 + w)) with (- (ln (1 + w) + (h - w) / (1 + w))) by (field; lra).
  lra.
Qed.

Theorem relu_sLB h w : 0 <= w -> sLB_relu w h <= sfun link_relu h.
Proof.
  intros Hw. unfold sLB_relu, sfun, link_relu.
  destruct (Rle_dec 0 h) as [Hh | Hh].
  - rewrite Rmax_left by lra. unfold Rdiv. apply Rmult_le_compat_l; [ lra | ]. now apply relu_kLB.
  - rewrite Rmax_right by lra. right. field.
Qed.

Theorem relu_ldUB h w : 0 <= w -> ln (1 + link_relu h) <= ldUB_relu w h.
Proof.
  intros Hw. unfold ldUB_relu, link_relu.
  destruct (Rle_dec 0 h) as [Hh | Hh].
  - rewrite Rmax_left by lra. apply log1p_bound; lra.
  - rewrite Rmax_right by lra. rewrite Rplus_0_r, ln_1. lra.
Qed.

(* ------------------------------------------------------------------ *)
(* step link                                                          *)
(* ------------------------------------------------------------------ *)

Theorem step_exact h :
  sfun link_step h = (if Rle_dec 0 h then / 2 else 0) /\
  ln (1 + link_step h) = (if Rle_dec 0 h then ln 2 else 0).
Proof.
  unfold sfun, link_step. destruct (Rle_dec 0 h); split.
  - field.
  - replace (1 + 1) with 2 by ring. reflexivity.
  - field.
  - rewrite Rplus_0_r. apply ln_1.
Qed.

(* ------------------------------------------------------------------ *)
(* Assembly                                                           *)
(* ------------------------------------------------------------------ *)

Record unit_ := Unit { ug : R; uh : R; uws : R; uwd : R }.

Definition logp (link : R -> R) (q0 ld0 c : R) (us : list unit_) : R :=
  - / 2 * (q0 - fold_right (fun u acc => ug u * ug u * sfun link (uh u) + acc) 0 us)
  - / 2 * (ld0 + fold_right (fun u acc => ln (1 + link (uh u)) + acc) 0 us) - c.
Definition logp_lb (sLB ldUB : R -> R -> R) (q0 ld0 c : R) (us : list unit_) : R :=
  - / 2 * (q0 - fold_right (fun u acc => ug u * ug u * sLB (uws u) (uh u) + acc) 0 us)
  - / 2 * (ld0 + fold_right (fun u acc => ldUB (uwd u) (uh u) + acc) 0 us) - c.

Lemma fold_sum_le (f g : unit_ -> R) us :
  List.Forall (fun u => f u <= g u) us ->
  fold_right (fun u acc => f u + acc) 0 us <= fold_right (fun u acc => g u + acc) 0 us.
Proof. induction 1; simpl; lra. Qed.

Lemma fold_sum_eq (f g : unit_ -> R) us :
  List.Forall (fun u => f u = g u) us ->
  fold_right (fun u acc => f u + acc) 0 us = fold_right (fun u acc => g u + acc) 0 us.
Proof. induction 1; simpl; [ reflexivity | congruence ]. Qed.

Lemma logp_lb_le link sLB ldUB (P : R -> Prop) q0 ld0 c us :
  (forall w h, P w -> sLB w h <= sfun link h) ->
  (forall w h, P w -> ln (1 + link h) <= ldUB w h) ->
  List.Forall (fun u => P (uws u) /\ P (uwd u)) us ->
  logp_lb sLB ldUB q0 ld0 c us <= logp link q0 ld0 c us.
Proof.
  intros Hs Hl HP. unfold logp_lb, logp.
  assert (H1 : fold_right (fun u acc => ug u * ug u * sLB (uws u) (uh u) + acc) 0 us
               <= fold_right (fun u acc => ug u * ug u * sfun link (uh u) + acc) 0 us).
  { apply (fold_sum_le (fun u => ug u * ug u * sLB (uws u) (uh u)) (fun u => ug u * ug u * sfun link (uh u))).
    eapply Forall_impl; [ | exact HP ]. intros u [Hu _]. simpl.
    apply Rmult_le_compat_l; [ apply Rle_0_sqr | now apply Hs ]. }
  assert (H2 : fold_right (fun u acc => ln (1 + link (uh u)) + acc) 0 us
               <= fold_right (fun u acc => ldUB (uwd u) (uh u) + acc) 0 us).
  { apply (fold_sum_le (fun u => ln (1 + link (uh u))) (fun u => ldUB (uwd u) (uh u))).
    eapply Forall_impl; [ | exact HP ]. intros u [_ Hu]. simpl. now apply Hl. }
  lra.
Qed.

Theorem exp_bound_pointwise q0 ld0 c us :
  List.Forall (fun u => 0 < uws u /\ 0 < uwd u) us ->
  logp_lb sLB_exp ldUB_exp q0 ld0 c us <= logp link_exp q0 ld0 c us.
Proof.
  apply (logp_lb_le link_exp sLB_exp ldUB_exp (fun w => 0 < w)).
  - intros w h Hw. now apply exp_sLB.
  - intros w h Hw. now apply exp_ldUB.
Qed.

Theorem cosh_bound_pointwise q0 ld0 c us :
  List.Forall (fun u => 0 < uws u /\ 0 < uwd u) us ->
  logp_lb sLB_cosh ldUB_cosh q0 ld0 c us <= logp link_coshm1 q0 ld0 c us.
Proof.
  apply (logp_lb_le link_coshm1 sLB_cosh ldUB_cosh (fun w => 0 < w)).
  - intros w h Hw. now apply cosh_sLB.
  - intros w h Hw. now apply cosh_ldUB.
Qed.

Theorem relu_bound_pointwise q0 ld0 c us :
  List.Forall (fun u => 0 <= uws u /\ 0 <= uwd u) us ->
  logp_lb sLB_relu ldUB_relu q0 ld0 c us <= logp link_relu q0 ld0 c us.
Proof.
  apply (logp_lb_le link_relu sLB_relu ldUB_relu (fun w => 0 <= w)).
  - intros w h Hw. now apply relu_sLB.
  - intros w h Hw. now apply relu_ldUB.
Qed.

Theorem step_pointwise q0 ld0 c us :
  logp link_step q0 ld0 c us =
  - / 2 * (q0 - fold_right (fun u acc => ug u * ug u * (if Rle_dec 0 (uh u) then / 2 else 0) + acc) 0 us)
  - / 2 * (ld0 + fold_right (fun u acc => (if Rle_dec 0 (uh u) then ln 2 else 0) + acc) 0 us) - c.
Proof.
  unfold logp.
  rewrite (fold_sum_eq (fun u => ug u * ug u * sfun link_step (uh u))
                       (fun u => ug u * ug u * (if Rle_dec 0 (uh u) then / 2 else 0))).
  2:{ apply Forall_forall. intros u _. simpl. now rewrite (proj1 (step_exact (uh u))). }
  rewrite (fold_sum_eq (fun u => ln (1 + link_step (uh u)))
                       (fun u => if Rle_dec 0 (uh u) then ln 2 else 0)).
  2:{ apply Forall_forall. intros u _. simpl. apply (proj2 (step_exact (uh u))). }
  reflexivity.
Qed.

Lemma logp_lb_eq link sLB ldUB q0 ld0 c us :
  List.Forall (fun u => sLB (uws u) (uh u) = sfun link (uh u) /\ ldUB (uwd u) (uh u) = ln (1 + link (uh u))) us ->
  logp_lb sLB ldUB q0 ld0 c us = logp link q0 ld0 c us.
Proof.
  intros H. unfold logp_lb, logp.
  rewrite (fold_sum_eq (fun u => ug u * ug u * sLB (uws u) (uh u)) (fun u => ug u * ug u * sfun link (uh u))).
  2:{ eapply Forall_impl; [ | exact H ]. intros u [Hu _]. simpl. now rewrite Hu. }
  rewrite (fold_sum_eq (fun u => ldUB (uwd u) (uh u)) (fun u => ln (1 + link (uh u)))).
  2:{ eapply Forall_impl; [ | exact H ]. intros u [_ Hu]. simpl. exact Hu. }
  reflexivity.
Qed.

Theorem exp_bound_tight q0 ld0 c us :
  List.Forall (fun u => 0 < uws u /\ 0 < uwd u /\ (uh u = uws u \/ uh u = - uws u) /\
                   (uh u = uwd u \/ uh u = - uwd u)) us ->
  logp_lb sLB_exp ldUB_exp q0 ld0 c us = logp link_exp q0 ld0 c us.
Proof.
  intros H. apply logp_lb_eq. eapply Forall_impl; [ | exact H ].
  intros u (Hs & Hd & Hhs & Hhd). simpl.
  destruct (exp_tight (uws u) Hs) as (A1 & A2 & _ & _).
  destruct (exp_tight (uwd u) Hd) as (_ & _ & B1 & B2).
  split.
  - destruct Hhs as [-> | ->]; assumption.
  - destruct Hhd as [-> | ->]; assumption.
Qed.

Theorem cosh_bound_tight q0 ld0 c us :
  List.Forall (fun u => 0 < uws u /\ 0 < uwd u /\ (uh u = uws u \/ uh u = - uws u) /\
                   (uh u = uwd u \/ uh u = - uwd u)) us ->
  logp_lb sLB_cosh ldUB_cosh q0 ld0 c us = logp link_coshm1 q0 ld0 c us.
Proof.
  intros H. apply logp_lb_eq. eapply Forall_impl; [ | exact H ].
  intros u (Hs & Hd & Hhs & Hhd). simpl.
  destruct (cosh_tight (uws u) Hs) as (A1 & _ & A2 & _).
  destruct (cosh_tight (uwd u) Hd) as (_ & B1 & _ & B2).
  split.
  - destruct Hhs as [-> | ->]; assumption.
  - destruct Hhd as [-> | ->]; assumption.
Qed.






















