From Coq Require Import Reals Lra Lia List.
From Coquelicot Require Import Coquelicot.
From GT Require Import HetBoundR.
Open Scope R_scope.

(* ------------------------------------------------------------------ *)
(* Elementary facts about sinh, cosh                                   *)
(* ------------------------------------------------------------------ *)

Lemma sinh_nonneg u : 0 <= u -> 0 <= sinh u.
Proof.
  intros Hu. unfold sinh.
  assert (exp (- u) <= exp u) by (apply exp_le; lra). lra.
Qed.

Lemma ch2_sh2 u : cosh u * cosh u - sinh u * sinh u = 1.
Proof.
  unfold cosh, sinh. generalize (exp_mul_opp u). generalize (exp u) (exp (- u)).
  intros E F HEF. replace ((E + F) / 2 * ((E + F) / 2) - (E - F) / 2 * ((E - F) / 2)) with (E * F) by field.
  exact HEF.
Qed.

(* tanh u <= u in product form *)
Lemma sinh_le_ucosh u : 0 <= u -> sinh u <= u * cosh u.
Proof.
  intros Hu.
  pose (f := fun t => t * ((exp t + exp (- t)) / 2) - (exp t - exp (- t)) / 2).
  pose (df := fun t => t * sinh t).
  assert (Hf : f 0 <= f u).
  { apply (incr_from_deriv f df); auto.
    - intros x _. unfold f, df, sinh. auto_derive; auto. field.
    - intros x Hx. unfold df. apply Rmult_le_pos; [ lra | apply sinh_nonneg; lra ]. }
  unfold f in Hf. rewrite Ropp_0, exp_0 in Hf. unfold sinh, cosh. lra.
Qed.

(* m(u) = (2/3) u^3 cosh^2 u - sinh u cosh u + u >= 0 on u >= 0 *)
Lemma m_nonneg u : 0 <= u ->
  0 <= 2 / 3 * (u * u * u) * (cosh u * cosh u) - sinh u * cosh u + u.
Proof.
  intros Hu.
  pose (m := fun t => 2 / 3 * (t * t * t) * ((exp t + exp (- t)) / 2 * ((exp t + exp (- t)) / 2))
                      - (exp t - exp (- t)) / 2 * ((exp t + exp (- t)) / 2) + t).
  pose (dm := fun t => 2 * (t * t) * (cosh t * cosh t) + 4 / 3 * (t * t * t) * (cosh t * sinh t)
                       - (cosh t * cosh t + sinh t * sinh t) + 1).
  assert (Hm : m 0 <= m u).
  { apply (incr_from_deriv m dm); auto.
    - intros x _. unfold m, dm, sinh, cosh. auto_derive; auto. field.
    - intros x Hx. unfold dm.
      assert (Hx0 : 0 <= x) by lra.
      generalize (ch2_sh2 x) (sinh_le_ucosh x Hx0) (sinh_nonneg x Hx0) (cosh_pos x).
      generalize (sinh x) (cosh x). intros S C H1 H2 H3 H4.
      assert (H5 : S * S <= (x * C) * (x * C)) by (apply Rmult_le_compat; lra).
      assert (H6 : 0 <= x * x * x * (C * S)).
      { apply Rmult_le_pos; [ apply Rmult_le_pos; [ apply Rmult_le_pos | ] | apply Rmult_le_pos ]; lra. }
      nra. }
  unfold m in Hm. rewrite Ropp_0, exp_0 in Hm. unfold sinh, cosh. lra.
Qed.

(* k(u) = tanh u / (2u) + u^2/6 is increasing on u > 0 *)
Definition kfun (u : R) : R := tanh u / (2 * u) + u * u / 6.

Lemma kfun_incr a b : 0 < a -> a <= b -> kfun a <= kfun b.
Proof.
  intros Ha Hab.
  pose (k := fun t => (exp t - exp (- t)) / 2 / ((exp t + exp (- t)) / 2) / (2 * t) + t * t / 6).
  pose (dk := fun t => ((cosh t * cosh t - sinh t * sinh t) * t - sinh t * cosh t)
                         / (2 * (t * t) * (cosh t * cosh t)) + t / 3).
  assert (Hk : k a <= k b).
  { apply (incr_from_deriv k dk); auto.
    - intros x Hx. unfold k, dk. auto_derive.
      + generalize (exp_pos x) (exp_pos (-x)). repeat split; lra.
      + unfold sinh, cosh.
        generalize (exp_pos x) (exp_pos (-x)). generalize (exp x) (exp (-x)). intros E F HE HF.
        field. split; lra.
    - intros x Hx. unfold dk. rewrite ch2_sh2.
      assert (Hx0 : 0 <= x) by lra.
      generalize (m_nonneg x Hx0) (cosh_pos x). generalize (sinh x) (cosh x). intros S C Hm HC.
      assert (HD : 0 < 2 * (x * x) * (C * C)).
      { apply Rmult_lt_0_compat; [ | apply Rmult_lt_0_compat; lra ].
        apply Rmult_lt_0_compat; [ lra | apply Rmult_lt_0_compat; lra ]. }
      replace ((1 * x - S * C) / (2 * (x * x) * (C * C)) + x / 3)
        with ((2 / 3 * (x * x * x) * (C * C) - S * C + x) / (2 * (x * x) * (C * C))) by (field; lra).
      apply Rmult_le_pos; [ exact Hm | left; now apply Rinv_0_lt_compat ]. }
  unfold k in Hk. unfold kfun, tanh, sinh, cosh. exact Hk.
Qed.

(* ------------------------------------------------------------------ *)
(* The gap function D                                                  *)
(* ------------------------------------------------------------------ *)

Lemma gapD_deriv c w x :
  is_derive (fun u => (u * u - w * w) * (u * u - w * w) / 12 - c * (u * u - w * w)
                      + ln ((exp u + exp (- u)) / 2)) x
            (x * (x * x - w * w) / 3 - 2 * c * x + tanh x).
Proof.
  auto_derive.
  - generalize (exp_pos x) (exp_pos (-x)). lra.
  - unfold tanh, sinh, cosh. generalize (exp_pos x) (exp_pos (-x)). generalize (exp x) (exp (-x)).
    intros E F HE HF. field. lra.
Qed.

(* D'(x) = 2 x (k x - k w) *)
Lemma gapD_deriv_eq w x : 0 < w -> 0 < x ->
  x * (x * x - w * w) / 3 - 2 * (tanh w / (2 * w)) * x + tanh x = 2 * x * (kfun x - kfun w).
Proof. intros Hw Hx. unfold kfun. field. lra. Qed.

Lemma lncosh_gap_nonneg_h h w : 0 < w -> 0 <= h ->
  ln (cosh w) + tanh w / (2 * w) * (h * h - w * w) - ln (cosh h) <= (h * h - w * w) ^ 2 / 12.
Proof.
  intros Hw Hh.
  set (c := tanh w / (2 * w)).
  pose (D := fun u => (u * u - w * w) * (u * u - w * w) / 12 - c * (u * u - w * w)
                      + ln ((exp u + exp (- u)) / 2)).
  pose (dD := fun x => x * (x * x - w * w) / 3 - 2 * c * x + tanh x).
  assert (HD : D w <= D h).
  { destruct (Rle_dec h w) as [Hhw | Hhw].
    - assert (H : - D h <= - D w); [ | lra ].
      apply (incr_from_deriv (fun x => - D x) (fun x => - dD x)); auto.
      + intros x Hx. apply (is_derive_opp D). apply gapD_deriv.
      + intros x Hx. destruct (Req_dec x 0) as [-> | Hx0].
        * unfold dD. rewrite tanh_0. lra.
        * assert (Hxp : 0 < x) by lra.
          unfold dD, c. rewrite (gapD_deriv_eq w x Hw Hxp).
          generalize (kfun_incr x w Hxp (proj2 Hx)). intros H. nra.
    - assert (Hwh : w <= h) by lra.
      apply (incr_from_deriv D dD); auto.
      + intros x Hx. apply gapD_deriv.
      + intros x Hx. assert (Hxp : 0 < x) by lra.
        unfold dD, c. rewrite (gapD_deriv_eq w x Hw Hxp).
        generalize (kfun_incr w x Hw (proj1 Hx)). intros H. nra. }
  unfold D in HD. fold (cosh h) in HD. fold (cosh w) in HD.
  replace ((w * w - w * w) * (w * w - w * w) / 12 - c * (w * w - w * w)) with 0 in HD by (unfold Rdiv; ring).
  replace ((h * h - w * w) ^ 2) with ((h * h - w * w) * (h * h - w * w)) by ring.
  lra.
Qed.

Theorem lncosh_gap_quadratic h w : 0 < w ->
  ln (cosh w) + tanh w / (2 * w) * (h * h - w * w) - ln (cosh h) <= (h * h - w * w) ^ 2 / 12.
Proof.
  intros Hw. destruct (Rle_dec 0 h) as [Hh | Hh].
  - now apply lncosh_gap_nonneg_h.
  - rewrite <- (cosh_opp h). replace (h * h) with ((- h) * (- h)) by ring.
    apply lncosh_gap_nonneg_h; lra.
Qed.

(* ------------------------------------------------------------------ *)
(* Corollaries for the log-det upper bounds                            *)
(* ------------------------------------------------------------------ *)

Theorem exp_ldUB_gap h w : 0 < w ->
  ldUB_exp w h - ln (1 + link_exp h) <= (h * h - w * w) ^ 2 / 192.
Proof.
  intros Hw. unfold link_exp, ldUB_exp, fom_exp, g1_exp. rewrite log1pexp.
  assert (Hw2 : 0 < w / 2) by lra.
  generalize (lncosh_gap_quadratic (h / 2) (w / 2) Hw2).
  replace (tanh (w / 2) / (2 * (w / 2)) * (h / 2 * (h / 2) - w / 2 * (w / 2)))
    with (/ 2 * (tanh (w / 2) / 2 / w) * (h * h - w * w)) by (field; lra).
  replace ((h / 2 * (h / 2) - w / 2 * (w / 2)) ^ 2 / 12) with ((h * h - w * w) ^ 2 / 192) by field.
  lra.
Qed.

Theorem cosh_ldUB_gap h w : 0 < w ->
  ldUB_cosh w h - ln (1 + link_coshm1 h) <= (h * h - w * w) ^ 2 / 12.
Proof.
  intros Hw. rewrite link_coshm1_plus. unfold ldUB_cosh, g1_cosh.
  generalize (lncosh_gap_quadratic h w Hw).
  replace (/ 2 * (tanh w / w) * (h * h - w * w)) with (tanh w / (2 * w) * (h * h - w * w)) by (field; lra).
  lra.
Qed.

Theorem exp_ldUB_gap_bounds h w : 0 < w ->
  0 <= ldUB_exp w h - ln (1 + link_exp h) <= (h * h - w * w) ^ 2 / 192.
Proof.
  intros Hw. split.
  - generalize (exp_ldUB h w Hw). lra.
  - now apply exp_ldUB_gap.
Qed.

Theorem cosh_ldUB_gap_bounds h w : 0 < w ->
  0 <= ldUB_cosh w h - ln (1 + link_coshm1 h) <= (h * h - w * w) ^ 2 / 12.
Proof.
  intros Hw. split.
  - generalize (cosh_ldUB h w Hw). lra.
  - now apply cosh_ldUB_gap.
Qed.

(* ------------------------------------------------------------------ *)
(* Gaussian moment identities: quadratic rate in the input scale       *)
(* ------------------------------------------------------------------ *)

Lemma gap_moment m v :
  (m^4 + 6 * m^2 * v + 3 * v^2) - 2 * (m^2 + v) * (m^2 + v) + (m^2 + v)^2 = 2 * v^2 + 4 * m^2 * v.
Proof. ring. Qed.

Lemma gap_rate m v1 s :
  2 * (s^2 * v1)^2 + 4 * m^2 * (s^2 * v1) = s^2 * (2 * s^2 * v1^2 + 4 * m^2 * v1).
Proof. ring. Qed.

(* ------------------------------------------------------------------ *)
(* True-integral version on a bounded interval, Gaussian weight        *)
(* ------------------------------------------------------------------ *)

Definition phiG (x : R) : R := exp (- (x * x) / 2) / sqrt (2 * PI).

Lemma sqrt_2PI_pos : 0 < sqrt (2 * PI).
Proof. apply sqrt_lt_R0. generalize PI_RGT_0. lra. Qed.

Lemma phiG_pos x : 0 < phiG x.
Proof. unfold phiG. apply Rdiv_lt_0_compat; [ apply exp_pos | apply sqrt_2PI_pos ]. Qed.

Lemma phiG_continuous x : continuous phiG x.
Proof.
  apply (ex_derive_continuous phiG x). unfold phiG. auto_derive.
  generalize sqrt_2PI_pos. lra.
Qed.

Lemma lncosh_aff_continuous m s x : continuous (fun z => ln (cosh (m + s * z))) x.
Proof.
  apply (ex_derive_continuous (fun z => ln (cosh (m + s * z))) x). unfold cosh. auto_derive.
  generalize (exp_pos (m + s * x)) (exp_pos (- (m + s * x))). lra.
Qed.

Lemma cosh_gap_integrand_continuous w m s x :
  continuous (fun z => (ldUB_cosh w (m + s * z) - ln (cosh (m + s * z))) * phiG z) x.
Proof.
  apply (continuous_mult (fun z => ldUB_cosh w (m + s * z) - ln (cosh (m + s * z))) phiG).
  - apply (continuous_minus (fun z => ldUB_cosh w (m + s * z)) (fun z => ln (cosh (m + s * z)))).
    + apply (ex_derive_continuous (fun z => ldUB_cosh w (m + s * z)) x).
      unfold ldUB_cosh. auto_derive. auto.
    + apply lncosh_aff_continuous.
  - apply phiG_continuous.
Qed.

Lemma quad_integrand_continuous K w m s x :
  continuous (fun z => ((m + s * z) ^ 2 - w ^ 2) ^ 2 / K * phiG z) x.
Proof.
  apply (continuous_mult (fun z => ((m + s * z) ^ 2 - w ^ 2) ^ 2 / K) phiG).
  - apply (ex_derive_continuous (fun z => ((m + s * z) ^ 2 - w ^ 2) ^ 2 / K) x).
    auto_derive. auto.
  - apply phiG_continuous.
Qed.

Theorem cosh_ldUB_gap_RInt w m s a : 0 < w -> 0 <= a ->
  RInt (fun z => (ldUB_cosh w (m + s * z) - ln (cosh (m + s * z))) * phiG z) (- a) a
  <= RInt (fun z => ((m + s * z) ^ 2 - w ^ 2) ^ 2 / 12 * phiG z) (- a) a.
Proof.
  intros Hw Ha. apply RInt_le.
  - lra.
  - apply (ex_RInt_continuous (fun z => (ldUB_cosh w (m + s * z) - ln (cosh (m + s * z))) * phiG z)).
    intros z _. apply cosh_gap_integrand_continuous.
  - apply (ex_RInt_continuous (fun z => ((m + s * z) ^ 2 - w ^ 2) ^ 2 / 12 * phiG z)).
    intros z _. apply quad_integrand_continuous.
  - intros z _. apply Rmult_le_compat_r; [ left; apply phiG_pos | ].
    generalize (cosh_ldUB_gap (m + s * z) w Hw). rewrite link_coshm1_plus.
    replace ((m + s * z) * (m + s * z) - w * w) with ((m + s * z) ^ 2 - w ^ 2) by ring.
    auto.
Qed.

Theorem cosh_ldUB_gap_RInt_nonneg w m s a : 0 < w -> 0 <= a ->
  0 <= RInt (fun z => (ldUB_cosh w (m + s * z) - ln (cosh (m + s * z))) * phiG z) (- a) a.
Proof.
  intros Hw Ha. apply RInt_ge_0.
  - lra.
  - apply (ex_RInt_continuous (fun z => (ldUB_cosh w (m + s * z) - ln (cosh (m + s * z))) * phiG z)).
    intros z _. apply cosh_gap_integrand_continuous.
  - intros z _. apply Rmult_le_pos; [ | left; apply phiG_pos ].
    generalize (cosh_ldUB (m + s * z) w Hw). rewrite link_coshm1_plus. lra.
Qed.

Lemma exp_gap_integrand_continuous w m s x :
  continuous (fun z => (ldUB_exp w (m + s * z) - ln (1 + link_exp (m + s * z))) * phiG z) x.
Proof.
  apply (continuous_mult (fun z => ldUB_exp w (m + s * z) - ln (1 + link_exp (m + s * z))) phiG).
  - apply (ex_derive_continuous (fun z => ldUB_exp w (m + s * z) - ln (1 + link_exp (m + s * z))) x).
    unfold ldUB_exp, link_exp. auto_derive.
    generalize (exp_pos (m + s * x)). lra.
  - apply phiG_continuous.
Qed.

Theorem exp_ldUB_gap_RInt w m s a : 0 < w -> 0 <= a ->
  RInt (fun z => (ldUB_exp w (m + s * z) - ln (1 + link_exp (m + s * z))) * phiG z) (- a) a
  <= RInt (fun z => ((m + s * z) ^ 2 - w ^ 2) ^ 2 / 192 * phiG z) (- a) a.
Proof.
  intros Hw Ha. apply RInt_le.
  - lra.
  - apply (ex_RInt_continuous (fun z => (ldUB_exp w (m + s * z) - ln (1 + link_exp (m + s * z))) * phiG z)).
    intros z _. apply exp_gap_integrand_continuous.
  - apply (ex_RInt_continuous (fun z => ((m + s * z) ^ 2 - w ^ 2) ^ 2 / 192 * phiG z)).
    intros z _. apply quad_integrand_continuous.
  - intros z _. apply Rmult_le_compat_r; [ left; apply phiG_pos | ].
    generalize (exp_ldUB_gap (m + s * z) w Hw).
    replace ((m + s * z) * (m + s * z) - w * w) with ((m + s * z) ^ 2 - w ^ 2) by ring.
    auto.
Qed.











