(* C17 -- from the pointwise inequality to the Gaussian expectation for an input of ANY dimension D: the integral over R^D is the
   iterated improper Riemann integral `is_gint` of trunc/GaussND.v (for which the Gaussian integral formula is a theorem,
   `gauss_nd`), the weight is any non-negative function p (in particular a Gaussian density exp (quadR D L nu x + c)); q0, the
   projected residuals and the pre-activations are arbitrary functions of x : R^D, the variational parameters are constants. *)
From Coq Require Import Reals Lra Lia List.
From Coquelicot Require Import Coquelicot.
From GT Require Import TruncGen C20_proofs GaussInt GaussND HetBoundR HetGapR C17R.
Open Scope R_scope.

Record unitv := UnitV { vg : vecR -> R; vh : vecR -> R; vws : R; vwd : R }.
Definition at_v (x : vecR) (u : unitv) : unit_ := Unit (vg u x) (vh u x) (vws u) (vwd u).

Lemma Forall_at_v (P : R -> Prop) (x : vecR) (us : list unitv) :
  List.Forall (fun u => P (vws u) /\ P (vwd u)) us ->
  List.Forall (fun u => P (uws u) /\ P (uwd u)) (map (at_v x) us).
Proof. induction 1; simpl; constructor; assumption. Qed.

(* monotonicity of the weighted integral *)
Lemma gint_weighted_le D (f g p : vecR -> R) vf vg' : (forall x, 0 <= p x) -> (forall x, f x <= g x) ->
  is_gint D (fun x => f x * p x) vf -> is_gint D (fun x => g x * p x) vg' -> vf <= vg'.
Proof.
  intros Hp Hfg. apply is_gint_le. intros x. apply Rmult_le_compat_r; [apply Hp | apply Hfg].
Qed.

Lemma mono_exp_bound_expectation_nd D (q0 : vecR -> R) ld0 c (us : list unitv) (p : vecR -> R) lf lg :
  (forall x, 0 <= p x) -> List.Forall (fun u => 0 < vws u /\ 0 < vwd u) us ->
  is_gint D (fun x => logp_lb sLB_exp ldUB_exp (q0 x) ld0 c (map (at_v x) us) * p x) lf ->
  is_gint D (fun x => logp link_exp (q0 x) ld0 c (map (at_v x) us) * p x) lg -> lf <= lg.
Proof.
  intros Hp Hus. apply (gint_weighted_le D _ _ p lf lg Hp).
  intros x. apply C17_exp_bound_pointwise. now apply (Forall_at_v (fun w => 0 < w)).
Qed.

Lemma mono_coshm1_bound_expectation_nd D (q0 : vecR -> R) ld0 c (us : list unitv) (p : vecR -> R) lf lg :
  (forall x, 0 <= p x) -> List.Forall (fun u => 0 < vws u /\ 0 < vwd u) us ->
  is_gint D (fun x => logp_lb sLB_cosh ldUB_cosh (q0 x) ld0 c (map (at_v x) us) * p x) lf ->
  is_gint D (fun x => logp link_coshm1 (q0 x) ld0 c (map (at_v x) us) * p x) lg -> lf <= lg.
Proof.
  intros Hp Hus. apply (gint_weighted_le D _ _ p lf lg Hp).
  intros x. apply C17_coshm1_bound_pointwise. now apply (Forall_at_v (fun w => 0 < w)).
Qed.

Lemma mono_relu_bound_expectation_nd D (q0 : vecR -> R) ld0 c (us : list unitv) (p : vecR -> R) lf lg :
  (forall x, 0 <= p x) -> List.Forall (fun u => 0 <= vws u /\ 0 <= vwd u) us ->
  is_gint D (fun x => logp_lb sLB_relu ldUB_relu (q0 x) ld0 c (map (at_v x) us) * p x) lf ->
  is_gint D (fun x => logp link_relu (q0 x) ld0 c (map (at_v x) us) * p x) lg -> lf <= lg.
Proof.
  intros Hp Hus. apply (gint_weighted_le D _ _ p lf lg Hp).
  intros x. apply C17_relu_bound_pointwise. now apply (Forall_at_v (fun w => 0 <= w)).
Qed.

(* the weight of interest: an (unnormalised) Gaussian density is non-negative, and it has an integral (gauss_nd) *)
Lemma gauss_weight_nonneg D L nu c x : 0 <= exp (quadR D L nu x + c).
Proof. left; apply exp_pos. Qed.
