(* Lifting the pointwise lower bounds of the heteroscedastic log-density (C17R.v) to Gaussian expectations,
   for a one-dimensional input x ~ N(mu, s^2): E[logp_lb] <= E[logp], on every interval and on the whole line. *)
From Coq Require Import Reals Lra Lia List.
From Coquelicot Require Import Coquelicot.
From GT Require Import TruncGen C20_proofs HetBoundR HetGapR C17R.
Open Scope R_scope.

(* ------------------------------------------------------------------ *)
(* 1. Monotonicity of the Gaussian expectation                         *)
(* ------------------------------------------------------------------ *)

Lemma dens_pos mu s x : 0 < s -> 0 < dens mu s x.
Proof. intros Hs. unfold dens. apply Rdiv_lt_0_compat; [ apply phiR_pos | exact Hs ]. Qed.

Lemma expect_le_interval f g mu s a b : 0 < s -> a <= b -> (forall x, a <= x <= b -> f x <= g x) ->
  ex_RInt (fun x => f x * dens mu s x) a b -> ex_RInt (fun x => g x * dens mu s x) a b ->
  RInt (fun x => f x * dens mu s x) a b <= RInt (fun x => g x * dens mu s x) a b.
Proof.
  intros Hs Hab Hfg Hf Hg. apply RInt_le; try assumption.
  intros x Hx. apply Rmult_le_compat_r; [ left; now apply dens_pos | apply Hfg; lra ].
Qed.

(* comparison of improper integrals over the whole line, for arbitrary integrands *)
Lemma RInt_gen_line_le (F G : R -> R) lf lg : (forall x, F x <= G x) ->
  is_RInt_gen F (Rbar_locally m_infty) (Rbar_locally p_infty) lf ->
  is_RInt_gen G (Rbar_locally m_infty) (Rbar_locally p_infty) lg -> lf <= lg.
Proof.
  intros HFG HF HG. apply Rnot_lt_le. intros Hlt.
  pose (m := (lf + lg) / 2).
  assert (Pf : locally lf (fun y => m < y)) by (apply open_gt; unfold m; lra).
  assert (Pg : locally lg (fun y => y < m)) by (apply open_lt; unfold m; lra).
  specialize (HF _ Pf). specialize (HG _ Pg).
  unfold filtermapi in HF, HG.
  assert (Hord : filter_prod (Rbar_locally m_infty) (Rbar_locally p_infty)
                   (fun ab : R * R => fst ab < snd ab)).
  { apply (Filter_prod _ _ _ (fun a => a < 0) (fun b => 0 < b)).
    - now exists 0.
    - now exists 0.
    - intros a b Ha Hb. simpl. lra. }
  generalize (filter_and _ _ Hord (filter_and _ _ HF HG)). intros H.
  apply (filter_not_empty (F := filter_prod (Rbar_locally m_infty) (Rbar_locally p_infty))).
  revert H. apply filter_imp. intros [a b] [Hab [[yf [If Hyf]] [yg [Ig Hyg]]]]. simpl in *.
  assert (yf <= yg).
  { apply (is_RInt_le F G a b yf yg); try assumption; [ lra | intros; apply HFG ]. }
  lra.
Qed.

Lemma expect_le_line f g mu s lf lg : 0 < s -> (forall x, f x <= g x) ->
  is_RInt_gen (fun x => f x * dens mu s x) (Rbar_locally m_infty) (Rbar_locally p_infty) lf ->
  is_RInt_gen (fun x => g x * dens mu s x) (Rbar_locally m_infty) (Rbar_locally p_infty) lg -> lf <= lg.
Proof.
  intros Hs Hfg. apply RInt_gen_line_le.
  intros x. apply Rmult_le_compat_r; [ left; now apply dens_pos | apply Hfg ].
Qed.

(* ------------------------------------------------------------------ *)
(* 2. The three links, noise units depending on the input x            *)
(* ------------------------------------------------------------------ *)

(* a noise unit whose projected residual fg and pre-activation fh are functions of the input;
   the variational parameters fws, fwd are constants *)
Record unitf := UnitF { fg : R -> R; fh : R -> R; fws : R; fwd : R }.
Definition at_x (x : R) (u : unitf) : unit_ := Unit (fg u x) (fh u x) (fws u) (fwd u).

Lemma Forall_at_x (P : R -> Prop) (x : R) (us : list unitf) :
  List.Forall (fun u => P (fws u) /\ P (fwd u)) us ->
  List.Forall (fun u => P (uws u) /\ P (uwd u)) (map (at_x x) us).
Proof. induction 1; simpl; constructor; assumption. Qed.

Lemma exp_bound_at_x q0 ld0 c (us : list unitf) :
  List.Forall (fun u => 0 < fws u /\ 0 < fwd u) us -> forall x : R,
  logp_lb sLB_exp ldUB_exp (q0 x) ld0 c (map (at_x x) us) <= logp link_exp (q0 x) ld0 c (map (at_x x) us).
Proof. intros H x. apply C17_exp_bound_pointwise. now apply (Forall_at_x (fun w => 0 < w)). Qed.
Lemma coshm1_bound_at_x q0 ld0 c (us : list unitf) :
  List.Forall (fun u => 0 < fws u /\ 0 < fwd u) us -> forall x : R,
  logp_lb sLB_cosh ldUB_cosh (q0 x) ld0 c (map (at_x x) us) <= logp link_coshm1 (q0 x) ld0 c (map (at_x x) us).
Proof. intros H x. apply C17_coshm1_bound_pointwise. now apply (Forall_at_x (fun w => 0 < w)). Qed.
Lemma relu_bound_at_x q0 ld0 c (us : list unitf) :
  List.Forall (fun u => 0 <= fws u /\ 0 <= fwd u) us -> forall x : R,
  logp_lb sLB_relu ldUB_relu (q0 x) ld0 c (map (at_x x) us) <= logp link_relu (q0 x) ld0 c (map (at_x x) us).
Proof. intros H x. apply C17_relu_bound_pointwise. now apply (Forall_at_x (fun w => 0 <= w)). Qed.

(* --- whole line --- *)
Lemma mono_exp_bound_expectation_1d (q0 : R -> R) ld0 c (us : list unitf) mu s lf lg : 0 < s ->
  List.Forall (fun u => 0 < fws u /\ 0 < fwd u) us ->
  is_RInt_gen (fun x => logp_lb sLB_exp ldUB_exp (q0 x) ld0 c (map (at_x x) us) * dens mu s x)
              (Rbar_locally m_infty) (Rbar_locally p_infty) lf ->
  is_RInt_gen (fun x => logp link_exp (q0 x) ld0 c (map (at_x x) us) * dens mu s x)
              (Rbar_locally m_infty) (Rbar_locally p_infty) lg ->
  lf <= lg.
Proof.
  intros Hs Hus.
  apply (expect_le_line (fun x => logp_lb sLB_exp ldUB_exp (q0 x) ld0 c (map (at_x x) us))
                        (fun x => logp link_exp (q0 x) ld0 c (map (at_x x) us)) mu s lf lg Hs).
  now apply exp_bound_at_x.
Qed.

Lemma mono_coshm1_bound_expectation_1d (q0 : R -> R) ld0 c (us : list unitf) mu s lf lg : 0 < s ->
  List.Forall (fun u => 0 < fws u /\ 0 < fwd u) us ->
  is_RInt_gen (fun x => logp_lb sLB_cosh ldUB_cosh (q0 x) ld0 c (map (at_x x) us) * dens mu s x)
              (Rbar_locally m_infty) (Rbar_locally p_infty) lf ->
  is_RInt_gen (fun x => logp link_coshm1 (q0 x) ld0 c (map (at_x x) us) * dens mu s x)
              (Rbar_locally m_infty) (Rbar_locally p_infty) lg ->
  lf <= lg.
Proof.
  intros Hs Hus.
  apply (expect_le_line (fun x => logp_lb sLB_cosh ldUB_cosh (q0 x) ld0 c (map (at_x x) us))
                        (fun x => logp link_coshm1 (q0 x) ld0 c (map (at_x x) us)) mu s lf lg Hs).
  now apply coshm1_bound_at_x.
Qed.

Lemma mono_relu_bound_expectation_1d (q0 : R -> R) ld0 c (us : list unitf) mu s lf lg : 0 < s ->
  List.Forall (fun u => 0 <= fws u /\ 0 <= fwd u) us ->
  is_RInt_gen (fun x => logp_lb sLB_relu ldUB_relu (q0 x) ld0 c (map (at_x x) us) * dens mu s x)
              (Rbar_locally m_infty) (Rbar_locally p_infty) lf ->
  is_RInt_gen (fun x => logp link_relu (q0 x) ld0 c (map (at_x x) us) * dens mu s x)
              (Rbar_locally m_infty) (Rbar_locally p_infty) lg ->
  lf <= lg.
Proof.
  intros Hs Hus.
  apply (expect_le_line (fun x => logp_lb sLB_relu ldUB_relu (q0 x) ld0 c (map (at_x x) us))
                        (fun x => logp link_relu (q0 x) ld0 c (map (at_x x) us)) mu s lf lg Hs).
  now apply relu_bound_at_x.
Qed.

(* --- bounded interval --- *)
Lemma mono_exp_bound_expectation_interval_1d (q0 : R -> R) ld0 c (us : list unitf) mu s a b : 0 < s -> a <= b ->
  List.Forall (fun u => 0 < fws u /\ 0 < fwd u) us ->
  ex_RInt (fun x => logp_lb sLB_exp ldUB_exp (q0 x) ld0 c (map (at_x x) us) * dens mu s x) a b ->
  ex_RInt (fun x => logp link_exp (q0 x) ld0 c (map (at_x x) us) * dens mu s x) a b ->
  RInt (fun x => logp_lb sLB_exp ldUB_exp (q0 x) ld0 c (map (at_x x) us) * dens mu s x) a b
  <= RInt (fun x => logp link_exp (q0 x) ld0 c (map (at_x x) us) * dens mu s x) a b.
Proof.
  intros Hs Hab Hus.
  apply (expect_le_interval (fun x => logp_lb sLB_exp ldUB_exp (q0 x) ld0 c (map (at_x x) us))
                            (fun x => logp link_exp (q0 x) ld0 c (map (at_x x) us)) mu s a b Hs Hab).
  intros x _. now apply exp_bound_at_x.
Qed.

Lemma mono_coshm1_bound_expectation_interval_1d (q0 : R -> R) ld0 c (us : list unitf) mu s a b : 0 < s -> a <= b ->
  List.Forall (fun u => 0 < fws u /\ 0 < fwd u) us ->
  ex_RInt (fun x => logp_lb sLB_cosh ldUB_cosh (q0 x) ld0 c (map (at_x x) us) * dens mu s x) a b ->
  ex_RInt (fun x => logp link_coshm1 (q0 x) ld0 c (map (at_x x) us) * dens mu s x) a b ->
  RInt (fun x => logp_lb sLB_cosh ldUB_cosh (q0 x) ld0 c (map (at_x x) us) * dens mu s x) a b
  <= RInt (fun x => logp link_coshm1 (q0 x) ld0 c (map (at_x x) us) * dens mu s x) a b.
Proof.
  intros Hs Hab Hus.
  apply (expect_le_interval (fun x => logp_lb sLB_cosh ldUB_cosh (q0 x) ld0 c (map (at_x x) us))
                            (fun x => logp link_coshm1 (q0 x) ld0 c (map (at_x x) us)) mu s a b Hs Hab).
  intros x _. now apply coshm1_bound_at_x.
Qed.

Lemma mono_relu_bound_expectation_interval_1d (q0 : R -> R) ld0 c (us : list unitf) mu s a b : 0 < s -> a <= b ->
  List.Forall (fun u => 0 <= fws u /\ 0 <= fwd u) us ->
  ex_RInt (fun x => logp_lb sLB_relu ldUB_relu (q0 x) ld0 c (map (at_x x) us) * dens mu s x) a b ->
  ex_RInt (fun x => logp link_relu (q0 x) ld0 c (map (at_x x) us) * dens mu s x) a b ->
  RInt (fun x => logp_lb sLB_relu ldUB_relu (q0 x) ld0 c (map (at_x x) us) * dens mu s x) a b
  <= RInt (fun x => logp link_relu (q0 x) ld0 c (map (at_x x) us) * dens mu s x) a b.
Proof.
  intros Hs Hab Hus.
  apply (expect_le_interval (fun x => logp_lb sLB_relu ldUB_relu (q0 x) ld0 c (map (at_x x) us))
                            (fun x => logp link_relu (q0 x) ld0 c (map (at_x x) us)) mu s a b Hs Hab).
  intros x _. now apply relu_bound_at_x.
Qed.

(* ------------------------------------------------------------------ *)
(* 3. Non-vacuity: one unit, fh x = x, fg x = 1, q0 x = x * x          *)
(* ------------------------------------------------------------------ *)

Definition ex_units (ws wd : R) : list unitf := UnitF (fun _ => 1) (fun x => x) ws wd :: nil.
Definition ex_q0 (x : R) : R := x * x.

Lemma dens_continuous mu s x : 0 < s -> continuous (dens mu s) x.
Proof.
  intros Hs. apply (ex_derive_continuous (dens mu s) x). unfold dens, phiR. auto_derive.
  generalize sqrt2PI_pos. repeat split; lra.
Qed.

Lemma ex_exp_lb_continuous ld0 c ws wd mu s x : 0 < s ->
  continuous (fun x => logp_lb sLB_exp ldUB_exp (ex_q0 x) ld0 c (map (at_x x) (ex_units ws wd)) * dens mu s x) x.
Proof.
  intros Hs.
  apply (continuous_mult (fun x => logp_lb sLB_exp ldUB_exp (ex_q0 x) ld0 c (map (at_x x) (ex_units ws wd))) (dens mu s));
    [ | now apply dens_continuous ].
  apply (ex_derive_continuous (fun x => logp_lb sLB_exp ldUB_exp (ex_q0 x) ld0 c (map (at_x x) (ex_units ws wd))) x).
  unfold logp_lb, ex_units, ex_q0, at_x, sLB_exp, ldUB_exp. simpl. auto_derive. auto.
Qed.

Lemma ex_exp_continuous ld0 c ws wd mu s x : 0 < s ->
  continuous (fun x => logp link_exp (ex_q0 x) ld0 c (map (at_x x) (ex_units ws wd)) * dens mu s x) x.
Proof.
  intros Hs.
  apply (continuous_mult (fun x => logp link_exp (ex_q0 x) ld0 c (map (at_x x) (ex_units ws wd))) (dens mu s));
    [ | now apply dens_continuous ].
  apply (ex_derive_continuous (fun x => logp link_exp (ex_q0 x) ld0 c (map (at_x x) (ex_units ws wd))) x).
  unfold logp, ex_units, ex_q0, at_x, sfun, link_exp. simpl. auto_derive.
  generalize (exp_pos x). repeat split; lra.
Qed.

Lemma ex_coshm1_lb_continuous ld0 c ws wd mu s x : 0 < s ->
  continuous (fun x => logp_lb sLB_cosh ldUB_cosh (ex_q0 x) ld0 c (map (at_x x) (ex_units ws wd)) * dens mu s x) x.
Proof.
  intros Hs.
  apply (continuous_mult (fun x => logp_lb sLB_cosh ldUB_cosh (ex_q0 x) ld0 c (map (at_x x) (ex_units ws wd))) (dens mu s));
    [ | now apply dens_continuous ].
  apply (ex_derive_continuous (fun x => logp_lb sLB_cosh ldUB_cosh (ex_q0 x) ld0 c (map (at_x x) (ex_units ws wd))) x).
  unfold logp_lb, ex_units, ex_q0, at_x, sLB_cosh, kLB_cosh, ldUB_cosh. simpl.
  generalize (ln (cosh ws)) (ln (cosh wd)) (g1_cosh ws) (g1_cosh wd). intros k1 k2 k3 k4.
  unfold cosh. auto_derive. auto.
Qed.

Lemma ex_coshm1_continuous ld0 c ws wd mu s x : 0 < s ->
  continuous (fun x => logp link_coshm1 (ex_q0 x) ld0 c (map (at_x x) (ex_units ws wd)) * dens mu s x) x.
Proof.
  intros Hs.
  apply (continuous_mult (fun x => logp link_coshm1 (ex_q0 x) ld0 c (map (at_x x) (ex_units ws wd))) (dens mu s));
    [ | now apply dens_continuous ].
  apply (ex_derive_continuous (fun x => logp link_coshm1 (ex_q0 x) ld0 c (map (at_x x) (ex_units ws wd))) x).
  unfold logp, ex_units, ex_q0, at_x, sfun, link_coshm1. simpl. unfold cosh. auto_derive.
  generalize (exp_pos x) (exp_pos (- x)). repeat split; lra.
Qed.

(* the rectified-linear integrands are only piecewise continuous (ldUB_relu jumps at h = 0 unless wd = 0) *)
Lemma ex_RInt_piecewise0 (f f1 f2 : R -> R) :
  (forall x, x <= 0 -> continuous f1 x) -> (forall x, 0 <= x -> continuous f2 x) ->
  (forall x, x < 0 -> f x = f1 x) -> (forall x, 0 < x -> f x = f2 x) ->
  forall a b, ex_RInt f a b.
Proof.
  intros C1 C2 E1 E2.
  assert (H0 : forall a, ex_RInt f a 0).
  { intros a. destruct (Rtotal_order a 0) as [Ha | [Ha | Ha]].
    - apply (ex_RInt_ext f1).
      + intros x. rewrite Rmin_left, Rmax_right by lra. intros Hx. symmetry. apply E1. lra.
      + apply (ex_RInt_continuous f1). intros z. rewrite Rmin_left, Rmax_right by lra. intros Hz. apply C1. lra.
    - subst a. apply ex_RInt_point.
    - apply (ex_RInt_ext f2).
      + intros x. rewrite Rmin_right, Rmax_left by lra. intros Hx. symmetry. apply E2. lra.
      + apply (ex_RInt_continuous f2). intros z. rewrite Rmin_right, Rmax_left by lra. intros Hz. apply C2. lra. }
  intros a b. apply (ex_RInt_Chasles f a 0 b); [ apply H0 | apply ex_RInt_swap, H0 ].
Qed.

Lemma ex_relu_lb_ex_RInt ld0 c ws wd mu s a b : 0 < s -> 0 <= ws -> 0 <= wd ->
  ex_RInt (fun x => logp_lb sLB_relu ldUB_relu (ex_q0 x) ld0 c (map (at_x x) (ex_units ws wd)) * dens mu s x) a b.
Proof.
  intros Hs Hws Hwd.
  apply (ex_RInt_piecewise0 _
           (fun x => (- / 2 * (x * x - (1 * 1 * 0 + 0)) - / 2 * (ld0 + (0 + 0)) - c) * dens mu s x)
           (fun x => (- / 2 * (x * x - (1 * 1 * (x * kLB_relu ws x) + 0))
                      - / 2 * (ld0 + (ln (1 + wd) + (x - wd) / (1 + wd) + 0)) - c) * dens mu s x)).
  - intros x _.
    apply (continuous_mult (fun x => - / 2 * (x * x - (1 * 1 * 0 + 0)) - / 2 * (ld0 + (0 + 0)) - c) (dens mu s));
      [ | now apply dens_continuous ].
    apply (ex_derive_continuous (fun x => - / 2 * (x * x - (1 * 1 * 0 + 0)) - / 2 * (ld0 + (0 + 0)) - c) x).
    auto_derive. auto.
  - intros x _.
    apply (continuous_mult (fun x => - / 2 * (x * x - (1 * 1 * (x * kLB_relu ws x) + 0))
                      - / 2 * (ld0 + (ln (1 + wd) + (x - wd) / (1 + wd) + 0)) - c) (dens mu s));
      [ | now apply dens_continuous ].
    apply (ex_derive_continuous (fun x => - / 2 * (x * x - (1 * 1 * (x * kLB_relu ws x) + 0))
                      - / 2 * (ld0 + (ln (1 + wd) + (x - wd) / (1 + wd) + 0)) - c) x).
    unfold kLB_relu. auto_derive. repeat split; lra.
  - intros x Hx. unfold logp_lb, ex_units, ex_q0, at_x, sLB_relu, ldUB_relu. simpl.
    destruct (Rle_dec 0 x) as [H | H]; [ lra | reflexivity ].
  - intros x Hx. unfold logp_lb, ex_units, ex_q0, at_x, sLB_relu, ldUB_relu. simpl.
    destruct (Rle_dec 0 x) as [H | H]; [ reflexivity | lra ].
Qed.

Lemma ex_relu_ex_RInt ld0 c ws wd mu s a b : 0 < s ->
  ex_RInt (fun x => logp link_relu (ex_q0 x) ld0 c (map (at_x x) (ex_units ws wd)) * dens mu s x) a b.
Proof.
  intros Hs.
  apply (ex_RInt_piecewise0 _
           (fun x => (- / 2 * (x * x - (1 * 1 * (0 / (1 + 0)) + 0)) - / 2 * (ld0 + (ln (1 + 0) + 0)) - c) * dens mu s x)
           (fun x => (- / 2 * (x * x - (1 * 1 * (x / (1 + x)) + 0)) - / 2 * (ld0 + (ln (1 + x) + 0)) - c) * dens mu s x)).
  - intros x _.
    apply (continuous_mult (fun x => - / 2 * (x * x - (1 * 1 * (0 / (1 + 0)) + 0)) - / 2 * (ld0 + (ln (1 + 0) + 0)) - c) (dens mu s));
      [ | now apply dens_continuous ].
    apply (ex_derive_continuous (fun x => - / 2 * (x * x - (1 * 1 * (0 / (1 + 0)) + 0)) - / 2 * (ld0 + (ln (1 + 0) + 0)) - c) x).
    auto_derive. auto.
  - intros x Hx.
    apply (continuous_mult (fun x => - / 2 * (x * x - (1 * 1 * (x / (1 + x)) + 0)) - / 2 * (ld0 + (ln (1 + x) + 0)) - c) (dens mu s));
      [ | now apply dens_continuous ].
    apply (ex_derive_continuous (fun x => - / 2 * (x * x - (1 * 1 * (x / (1 + x)) + 0)) - / 2 * (ld0 + (ln (1 + x) + 0)) - c) x).
    auto_derive. repeat split; lra.
  - intros x Hx. unfold logp, ex_units, ex_q0, at_x, sfun, link_relu. simpl.
    rewrite Rmax_right by lra. reflexivity.
  - intros x Hx. unfold logp, ex_units, ex_q0, at_x, sfun, link_relu. simpl.
    rewrite Rmax_left by lra. reflexivity.
Qed.

Lemma ex_exp_lb_ex_RInt ld0 c ws wd mu s a b : 0 < s ->
  ex_RInt (fun x => logp_lb sLB_exp ldUB_exp (ex_q0 x) ld0 c (map (at_x x) (ex_units ws wd)) * dens mu s x) a b.
Proof.
  intros Hs.
  apply (ex_RInt_continuous (fun x => logp_lb sLB_exp ldUB_exp (ex_q0 x) ld0 c (map (at_x x) (ex_units ws wd)) * dens mu s x)).
  intros z _. now apply ex_exp_lb_continuous.
Qed.
Lemma ex_exp_ex_RInt ld0 c ws wd mu s a b : 0 < s ->
  ex_RInt (fun x => logp link_exp (ex_q0 x) ld0 c (map (at_x x) (ex_units ws wd)) * dens mu s x) a b.
Proof.
  intros Hs.
  apply (ex_RInt_continuous (fun x => logp link_exp (ex_q0 x) ld0 c (map (at_x x) (ex_units ws wd)) * dens mu s x)).
  intros z _. now apply ex_exp_continuous.
Qed.
Lemma ex_coshm1_lb_ex_RInt ld0 c ws wd mu s a b : 0 < s ->
  ex_RInt (fun x => logp_lb sLB_cosh ldUB_cosh (ex_q0 x) ld0 c (map (at_x x) (ex_units ws wd)) * dens mu s x) a b.
Proof.
  intros Hs.
  apply (ex_RInt_continuous (fun x => logp_lb sLB_cosh ldUB_cosh (ex_q0 x) ld0 c (map (at_x x) (ex_units ws wd)) * dens mu s x)).
  intros z _. now apply ex_coshm1_lb_continuous.
Qed.
Lemma ex_coshm1_ex_RInt ld0 c ws wd mu s a b : 0 < s ->
  ex_RInt (fun x => logp link_coshm1 (ex_q0 x) ld0 c (map (at_x x) (ex_units ws wd)) * dens mu s x) a b.
Proof.
  intros Hs.
  apply (ex_RInt_continuous (fun x => logp link_coshm1 (ex_q0 x) ld0 c (map (at_x x) (ex_units ws wd)) * dens mu s x)).
  intros z _. now apply ex_coshm1_continuous.
Qed.

Lemma ex_units_pos ws wd : 0 < ws -> 0 < wd -> List.Forall (fun u => 0 < fws u /\ 0 < fwd u) (ex_units ws wd).
Proof. intros; constructor; [ simpl; split; assumption | constructor ]. Qed.
Lemma ex_units_nonneg ws wd : 0 <= ws -> 0 <= wd -> List.Forall (fun u => 0 <= fws u /\ 0 <= fwd u) (ex_units ws wd).
Proof. intros; constructor; [ simpl; split; assumption | constructor ]. Qed.

(* the interval theorems applied to the example: no integrability hypothesis left *)
Lemma mono_exp_bound_expectation_example ld0 c ws wd mu s a b : 0 < s -> a <= b -> 0 < ws -> 0 < wd ->
  RInt (fun x => logp_lb sLB_exp ldUB_exp (ex_q0 x) ld0 c (map (at_x x) (ex_units ws wd)) * dens mu s x) a b
  <= RInt (fun x => logp link_exp (ex_q0 x) ld0 c (map (at_x x) (ex_units ws wd)) * dens mu s x) a b.
Proof.
  intros Hs Hab Hws Hwd. apply mono_exp_bound_expectation_interval_1d; try assumption.
  - now apply ex_units_pos.
  - now apply ex_exp_lb_ex_RInt.
  - now apply ex_exp_ex_RInt.
Qed.
Lemma mono_coshm1_bound_expectation_example ld0 c ws wd mu s a b : 0 < s -> a <= b -> 0 < ws -> 0 < wd ->
  RInt (fun x => logp_lb sLB_cosh ldUB_cosh (ex_q0 x) ld0 c (map (at_x x) (ex_units ws wd)) * dens mu s x) a b
  <= RInt (fun x => logp link_coshm1 (ex_q0 x) ld0 c (map (at_x x) (ex_units ws wd)) * dens mu s x) a b.
Proof.
  intros Hs Hab Hws Hwd. apply mono_coshm1_bound_expectation_interval_1d; try assumption.
  - now apply ex_units_pos.
  - now apply ex_coshm1_lb_ex_RInt.
  - now apply ex_coshm1_ex_RInt.
Qed.
Lemma mono_relu_bound_expectation_example ld0 c ws wd mu s a b : 0 < s -> a <= b -> 0 <= ws -> 0 <= wd ->
  RInt (fun x => logp_lb sLB_relu ldUB_relu (ex_q0 x) ld0 c (map (at_x x) (ex_units ws wd)) * dens mu s x) a b
  <= RInt (fun x => logp link_relu (ex_q0 x) ld0 c (map (at_x x) (ex_units ws wd)) * dens mu s x) a b.
Proof.
  intros Hs Hab Hws Hwd. apply mono_relu_bound_expectation_interval_1d; try assumption.
  - now apply ex_units_nonneg.
  - now apply ex_relu_lb_ex_RInt.
  - now apply ex_relu_ex_RInt.
Qed.

