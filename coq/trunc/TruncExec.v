(* Executable instance of the truncated-measure model at exact rationals; the standard normal cdf
   and pdf are finite tables (their values at the standardised limits, supplied by the harness as
   exact dyadic rationals computed independently of the library). *)
From Coq Require Import List ZArith QArith Qcanon.
From GT Require Import TruncGen.
Import ListNotations.
Local Open Scope Z_scope.

Definition q (n : Z) (d : positive) : Qc := Q2Qc (Qmake n d).
Definition qofnat (n : nat) : Qc := q (Z.of_nat n) 1.
Definition qleb (a b : Qc) : bool := Qle_bool (this a) (this b).
Definition lookup (tab : list (Qc * Qc)) (x : Qc) : Qc :=
  match find (fun p => Qc_eq_bool (fst p) x) tab with Some p => snd p | None => q 0 1 end.

Definition qops (tPhi tphi : list (Qc * Qc)) : ops Qc :=
  Ops Qc (q 0 1) (q 1 1) Qcplus Qcminus Qcmult Qcdiv Qcopp qofnat Qc_eq_bool qleb (lookup tPhi) (lookup tphi).
Definition xstd (mu s x : Qc) : Qc := Qcdiv (Qcminus x mu) s.

(* printing: 5 integers per value (numerator, denominator, 0, 1, 1), the harness' value format *)
Definition dq (x : Qc) : list Z := [Qnum (this x); Zpos (Qden (this x)); 0; 1; 1].
Definition db (b : bool) : list Z := [if b then 1 else 0; 1; 0; 1; 1].
