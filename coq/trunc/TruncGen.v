(* experimental/truncated_measure.py: one-dimensional Gaussian measures truncated to [lo, hi].
   The model is written once over an abstract scalar signature so that the SAME definitions are
   (a) executed at exact rationals (Qc) with a finite table for the normal cdf / pdf values, and
   (b) instantiated at Coq's real numbers R, where the theorems (trunc/C20_proofs.v) relate them to
   Riemann integrals.  Per component; mu = mean, s = sqrt(Sigma) = 1/sqrt(Lambda). *)
From Coq Require Import List Arith.
Import ListNotations.

Record ops (T : Type) := Ops {
  zero : T; one : T; add : T -> T -> T; sub : T -> T -> T; mul : T -> T -> T; div : T -> T -> T;
  opp : T -> T; ofnat : nat -> T; eqb : T -> T -> bool; leb : T -> T -> bool;
  Phi : T -> T;            (* standard normal cdf *)
  phi : T -> T }.          (* standard normal pdf *)

Section TruncGen.
Variable T : Type.
Variable O : ops T.
Notation zero := (zero T O). Notation one := (one T O). Notation add := (add T O). Notation sub := (sub T O).
Notation mul := (mul T O). Notation div := (div T O). Notation opp := (opp T O). Notation ofnat := (ofnat T O).
Notation eqb := (eqb T O). Notation leb := (leb T O). Notation Phi := (Phi T O). Notation phi := (phi T O).

Infix "+" := add. Infix "-" := sub. Infix "*" := mul. Infix "/" := div.

Fixpoint pow (x : T) (n : nat) : T := match n with 0 => one | S k => x * pow x k end.
Fixpoint binom (n k : nat) : nat :=
  match n, k with
  | _, 0 => 1
  | 0, S _ => 0
  | S n', S k' => Nat.add (binom n' k') (binom n' (S k'))
  end.

(* standardised limits (truncated_measure.py:58-77) *)
Definition std (mu s : T) (x : T) : T := (x - mu) / s.
Definition PhiLo (mu s : T) (lo : option T) : T := match lo with None => zero | Some a => Phi (std mu s a) end.
Definition PhiHi (mu s : T) (hi : option T) : T := match hi with None => one | Some b => Phi (std mu s b) end.
Definition phiAt (mu s : T) (l : option T) : T := match l with None => zero | Some a => phi (std mu s a) end.
(* x^(k) * pdf(x) at a limit, 0 at an infinite limit (truncated_measure.py:208-217) *)
Definition xkphi (mu s : T) (l : option T) (k : nat) : T :=
  match l with None => zero | Some a => pow (std mu s a) k * phi (std mu s a) end.

(* _expectation_integral: Phi(beta) - Phi(alpha) *)
Definition Zc (mu s : T) (lo hi : option T) : T := PhiHi mu s hi - PhiLo mu s lo.

(* _expectation_x (truncated_measure.py:144-153) *)
Definition E_x (mu s : T) (lo hi : option T) : T :=
  let Z := Zc mu s lo hi in
  if eqb Z zero then zero else mu + (phiAt mu s lo - phiAt mu s hi) / Z * s.

(* _get_variance (truncated_measure.py:160-178) *)
Definition Var (mu s : T) (lo hi : option T) : T :=
  let Z := Zc mu s lo hi in
  if eqb Z zero then zero else
  let d := (phiAt mu s lo - phiAt mu s hi) / Z in
  s * s * (one - (xkphi mu s hi 1 - xkphi mu s lo 1) / Z - d * d).

(* _get_moment (truncated_measure.py:199-249): L_0 = 1, L_1 = -(pdf(beta)-pdf(alpha))/Z,
   L_k = -(beta^(k-1) pdf(beta) - alpha^(k-1) pdf(alpha))/Z + (k-1) L_(k-2); fuel-free pair recursion *)
Fixpoint Ls (mu s : T) (lo hi : option T) (den : T) (k : nat) : T * T :=   (* (L_k, L_(k+1)) *)
  match k with
  | 0 => (one, opp ((phiAt mu s hi - phiAt mu s lo) / den))
  | S k' => let '(a, b) := Ls mu s lo hi den k' in
            (b, opp ((xkphi mu s hi (S k') - xkphi mu s lo (S k')) / den) + ofnat (S k') * a)
  end.
Definition Lk (mu s : T) (lo hi : option T) (k : nat) : T :=
  let Z := Zc mu s lo hi in let den := if eqb Z zero then one else Z in fst (Ls mu s lo hi den k).
Fixpoint sum_upto (n : nat) (f : nat -> T) : T := match n with 0 => f 0 | S k => sum_upto k f + f (S k) end.
Definition moment (mu s : T) (lo hi : option T) (k : nat) : T :=
  let Z := Zc mu s lo hi in
  if eqb Z zero then zero else
  sum_upto k (fun i => ofnat (binom k i) * pow s i * pow mu (Nat.sub k i) * Lk mu s lo hi i).

(* the integrals of the truncated MEASURE divided by the mass of the untruncated measure *)
Definition int_1 (mu s : T) (lo hi : option T) : T := Zc mu s lo hi.
Definition int_x (mu s : T) (lo hi : option T) : T := E_x mu s lo hi * Zc mu s lo hi.
Definition int_x2 (mu s : T) (lo hi : option T) : T :=
  (Var mu s lo hi + E_x mu s lo hi * E_x mu s lo hi) * Zc mu s lo hi.
Definition int_xk (mu s : T) (lo hi : option T) (k : nat) : T := moment mu s lo hi k * Zc mu s lo hi.

(* support indicator: closed interval, infinite limits always satisfied (truncated_measure.py:82-108) *)
Definition in_limits (lo hi : option T) (x : T) : bool :=
  (match lo with None => true | Some a => leb a x end) && (match hi with None => true | Some b => leb x b end).

End TruncGen.
