# Source drift: a per-function fingerprint of /repo's library sources (normalised AST, docstrings and comments ignored),
# compared on every run with the fingerprint the model was last validated against (tools/source_baseline.json).
# Drift is NOT a verdict.  It (i) is reported in the evidence, and (ii) widens the search exactly when the code has
# changed: the quick tier then adds cases from the thorough generator for properties anchored in the changed files.
import ast, hashlib, json, os, glob, warnings
from .gtlib import VERIF, REPO

BASELINE = os.path.join(VERIF, "tools", "source_baseline.json")


def _strip_doc(node):
    for n in ast.walk(node):
        if isinstance(n, (ast.FunctionDef, ast.AsyncFunctionDef, ast.ClassDef, ast.Module)):
            b = n.body
            if b and isinstance(b[0], ast.Expr) and isinstance(getattr(b[0], "value", None), ast.Constant) and isinstance(b[0].value.value, str):
                n.body = b[1:] or [ast.Pass()]
    return node


def fingerprint(repo=None):
    repo = repo or REPO
    out = {}
    for path in sorted(glob.glob(os.path.join(repo, "gaussian_toolbox", "**", "*.py"), recursive=True)):
        rel = os.path.relpath(path, repo)
        try:
            with warnings.catch_warnings():
                warnings.simplefilter("ignore")
                tree = _strip_doc(ast.parse(open(path).read()))
        except SyntaxError as e:
            out[rel + "::<syntax error>"] = str(e)
            continue
        def visit(node, prefix):
            for ch in ast.iter_child_nodes(node):
                if isinstance(ch, ast.ClassDef):
                    # class-level statements other than methods (fields, decorators)
                    head = [ast.dump(s) for s in ch.body if not isinstance(s, (ast.FunctionDef, ast.AsyncFunctionDef, ast.ClassDef))]
                    out["%s::%s%s.<class>" % (rel, prefix, ch.name)] = hashlib.sha1(json.dumps([ast.dump(d) for d in ch.decorator_list] + [ast.dump(b) for b in ch.bases] + head).encode()).hexdigest()[:16]
                    visit(ch, prefix + ch.name + ".")
                elif isinstance(ch, (ast.FunctionDef, ast.AsyncFunctionDef)):
                    out["%s::%s%s" % (rel, prefix, ch.name)] = hashlib.sha1(ast.dump(ch).encode()).hexdigest()[:16]
        visit(tree, "")
        top = [ast.dump(s) for s in tree.body if not isinstance(s, (ast.FunctionDef, ast.AsyncFunctionDef, ast.ClassDef))]
        out[rel + "::<module>"] = hashlib.sha1(json.dumps(top).encode()).hexdigest()[:16]
    return out


def spans(repo=None):
    """file -> list of (qualified name, first line, last line) of every function / method"""
    repo = repo or REPO
    out = {}
    for path in sorted(glob.glob(os.path.join(repo, "gaussian_toolbox", "**", "*.py"), recursive=True)):
        rel = os.path.relpath(path, repo)
        try:
            with warnings.catch_warnings():
                warnings.simplefilter("ignore")
                tree = ast.parse(open(path).read())
        except SyntaxError:
            continue
        lst = []
        def visit(node, prefix):
            for ch in ast.iter_child_nodes(node):
                if isinstance(ch, ast.ClassDef):
                    visit(ch, prefix + ch.name + ".")
                elif isinstance(ch, (ast.FunctionDef, ast.AsyncFunctionDef)):
                    body = [b for b in ch.body if not (isinstance(b, ast.Expr) and isinstance(getattr(b, "value", None), ast.Constant) and isinstance(b.value.value, str))]
                    if body:
                        lst.append((prefix + ch.name, body[0].lineno, max(getattr(b, "end_lineno", b.lineno) for b in body)))
        visit(tree, "")
        out[rel] = lst
    return out


def exercised(cov, repo=None):
    """from a coverage.Coverage object: file::function -> fraction of its executable body lines that ran"""
    repo = repo or REPO
    res = {}
    for rel, lst in spans(repo).items():
        path = os.path.join(repo, rel)
        try:
            _, stmts, _, missing, _ = cov.analysis2(path)
        except Exception:
            continue
        stmts = set(stmts); missing = set(missing)
        for name, a, b in lst:
            st = [l for l in stmts if a <= l <= b]
            if st:
                res["%s::%s" % (rel, name)] = round(1.0 - len([l for l in st if l in missing]) / len(st), 3)
    return res


def changed(repo=None):
    """names (file::Class.method) whose fingerprint differs from the baseline, appeared or disappeared"""
    if not os.path.exists(BASELINE):
        return ["<no baseline>"]
    base = json.load(open(BASELINE))["functions"]
    cur = fingerprint(repo)
    return sorted(k for k in set(base) | set(cur) if base.get(k) != cur.get(k))


def files_of(names):
    return sorted({n.split("::")[0] for n in names})


if __name__ == "__main__":
    import subprocess, sys
    fp = fingerprint("/repo")
    head = subprocess.run(["git", "-C", "/repo", "rev-parse", "--short", "HEAD"], capture_output=True, text=True).stdout.strip()
    json.dump(dict(repo_commit=head, functions=fp), open(BASELINE, "w"), indent=0, sort_keys=True)
    print("baseline written:", len(fp), "functions at", head)
