# Shared machinery of the correspondence check: one PRNG, rational generators, Coq literal
# printers, the coqc runner/parser, comparison, violation/evidence writers.
import os, sys, re, json, math, time, random, subprocess, hashlib, shutil, warnings, fcntl, traceback
from fractions import Fraction as Fr
from concurrent.futures import ThreadPoolExecutor

VERIF = os.path.dirname(os.path.dirname(os.path.abspath(__file__)))
COQ = os.path.join(VERIF, "coq")
REPO = os.environ.get("VERIF_REPO", "/repo")
HL2P = 0.5 * math.log(2.0 * math.pi)
TOL = 1e-8

_impl_ready = False


def impl():
    """Import the implementation from REPO's working tree (never from an installed copy)."""
    global _impl_ready
    if not _impl_ready:
        warnings.filterwarnings("ignore")
        sys.dont_write_bytecode = True
        os.environ.setdefault("JAX_PLATFORMS", "cpu")
        if sys.path[0] != REPO:
            sys.path.insert(0, REPO)
        import jax
        jax.config.update("jax_enable_x64", True)
        import gaussian_toolbox
        assert os.path.realpath(gaussian_toolbox.__file__).startswith(os.path.realpath(REPO)), gaussian_toolbox.__file__
        _impl_ready = True
    import jax, jax.numpy as jnp, numpy as np
    from gaussian_toolbox import factor, measure, pdf, conditional
    return dict(jax=jax, jnp=jnp, np=np, factor=factor, measure=measure, pdf=pdf, conditional=conditional)


# ------------------------------------------------------------------ rationals
class Gen:
    """All random choices of a run derive from this one PRNG."""

    def __init__(self, seed):
        self.r = random.Random(seed)
        self.rejected_cond = 0

    def q(self, lo=-3, hi=3, dens=(1, 1, 2, 4, 3)):
        # (thirds: values that no binary float represents exactly, so that a silent cast to a narrower dtype is visible)
        return Fr(self.r.randint(lo, hi), self.r.choice(dens))

    def qnz(self, **kw):
        while True:
            x = self.q(**kw)
            if x != 0:
                return x

    def qpos(self, hi=3, dens=(1, 2, 4)):
        return Fr(self.r.randint(1, hi), self.r.choice(dens))

    def vec(self, n, **kw):
        return [self.q(**kw) for _ in range(n)]

    def mat(self, m, n, **kw):
        return [self.vec(n, **kw) for _ in range(m)]

    def imat(self, m, n, lo=-2, hi=2):
        return [[Fr(self.r.randint(lo, hi)) for _ in range(n)] for _ in range(m)]

    def spd(self, D, integer=False):
        """B B' + d I with small integer B; rejects condition numbers above 1e3 (counted)."""
        import numpy as np
        while True:
            B = [[self.r.randint(-2, 2) for _ in range(D)] for _ in range(D)]
            d = [Fr(self.r.randint(1, 3), 1 if integer else self.r.choice((1, 2))) for _ in range(D)]
            A = [[sum(Fr(B[i][k] * B[j][k]) for k in range(D)) + (d[i] if i == j else 0) for j in range(D)] for i in range(D)]
            if integer:
                pass
            if np.linalg.cond(np.array(A, dtype=float)) <= 1e3:
                return A
            self.rejected_cond += 1

    def diag_spd(self, D):
        return [[(self.qpos() if i == j else Fr(0)) for j in range(D)] for i in range(D)]

    def choice(self, xs):
        return self.r.choice(list(xs))

    def randint(self, a, b):
        return self.r.randint(a, b)

    def shuffle(self, xs):
        self.r.shuffle(xs)


def fl(x):
    import numpy as np
    return np.array(x, dtype=object).astype(float)


def jarr(x):
    impl()                       # x64 must be enabled BEFORE the first jax array is made (else it is a float32 array)
    import jax.numpy as jnp
    return jnp.array(fl(x))


def tolist(x):
    """Fractions -> JSON-able strings "n/d" (nested); everything else unchanged."""
    if isinstance(x, Fr):
        return "%d/%d" % (x.numerator, x.denominator)
    if isinstance(x, (list, tuple)):
        return [tolist(y) for y in x]
    if isinstance(x, dict):
        return {k: tolist(v) for k, v in x.items()}
    return x


def fromlist(x):
    if isinstance(x, str) and re.fullmatch(r"-?\d+/\d+", x):
        a, b = x.split("/")
        return Fr(int(a), int(b))
    if isinstance(x, list):
        return [fromlist(y) for y in x]
    if isinstance(x, dict):
        return {k: fromlist(v) for k, v in x.items()}
    return x


# ------------------------------------------------------------------ Coq literals
def cq(x):
    x = Fr(x)
    return "q (%d) %d" % (x.numerator, x.denominator)


def cseq(items):
    return "[:: " + "; ".join(items) + "]" if items else "[::]"


def cvec(v):
    return cseq([cq(x) for x in v])


def cmat(m):
    return cseq([cvec(r) for r in m])


def cb3(b):
    return cseq([cmat(m) for m in b])


def cnat(n):
    return "%d%%N" % n


def cint(i):
    return "(%d)%%Z" % i if False else ("(Posz %d)" % i if i >= 0 else "(Negz %d)" % (-i - 1))


def cints(idx):
    return cseq([cint(int(i)) for i in idx])


def cnats(idx):
    return cseq([cnat(int(i)) for i in idx])


def cbool(b):
    return "true" if b else "false"


def copt(x, f):
    return "None" if x is None else "(Some (%s))" % f(x)


HEADER = """From Coq Require Import QArith Qcanon ZArith.
From mathcomp Require Import all_ssreflect all_algebra.
From GT Require Import QcField QcOrder Tensor DetExec LogDom Obj Factor Measure Pdf Cond Moments ExpLog Sample Approx FeatLog Driver %s.
Local Close Scope Q_scope. Local Close Scope Qc_scope. Local Close Scope Z_scope.
"""


def _run_shard(args):
    path, timeout = args
    t0 = time.time()
    r = subprocess.run(["coqc", "-R", COQ, "GT", "-w", "none", path], capture_output=True, text=True,
                       timeout=timeout, cwd=os.path.dirname(path))
    return path, r.returncode, r.stdout, r.stderr, time.time() - t0


def parse_coq_lists(txt):
    """Parse the printed `= [:: [:: ints]; ...] : seq (seq Z)` into a list of lists of ints."""
    body = txt[txt.index("=") + 1: txt.rindex(":")]
    body = body.replace("[::", "[").replace(";", ",")
    body = re.sub(r":\s*list\s*\(list\s*Z\)\s*$", "", body)
    body = re.sub(r"%[A-Za-z_]+", "", body)
    body = re.sub(r"\(\s*(-?\d+)\s*\)", r"\1", body)
    body = re.sub(r"\s+", " ", body).replace("[ ]", "[]")
    return json.loads(body)


def run_model(terms, workdir, extra_imports="", shard=25, jobs=16, timeout=900, header=None, ctype="seq Z", lst=("[:: ", "]")):
    """Evaluate every Coq term (of type seq Z) with vm_compute; returns a list of int lists.
    A term whose evaluation fails is returned as None (with the error text in errors)."""
    os.makedirs(workdir, exist_ok=True)
    paths = []
    for s in range(0, len(terms), shard):
        chunk = terms[s:s + shard]
        p = os.path.join(workdir, "cases_%03d.v" % (s // shard))
        with open(p, "w") as f:
            f.write((header or HEADER) % extra_imports)
            for k, t in enumerate(chunk):
                f.write("Definition c%d : %s := %s.\n" % (k, ctype, t))
            f.write("Local Open Scope Z_scope.\n")
            f.write("Eval vm_compute in %s%s%s.\n" % (lst[0], "; ".join("c%d" % k for k in range(len(chunk))), lst[1]))
        paths.append((p, len(chunk)))
    out = [None] * len(terms)
    errors = []
    with ThreadPoolExecutor(max_workers=jobs) as ex:
        results = list(ex.map(_run_shard, [(p, timeout) for p, _ in paths]))
    pos = 0
    t_coq = 0.0
    for (p, n), (_, rc, so, se, dt) in zip(paths, results):
        t_coq = max(t_coq, dt)
        if rc != 0:
            errors.append((p, se[-2000:]))
        else:
            lists = parse_coq_lists(so)
            assert len(lists) == n, (p, len(lists), n)
            for k in range(n):
                out[pos + k] = lists[k]
        pos += n
    return out, errors, t_coq


def decode5(ints):
    """5 integers per value: q_num q_den c r_num r_den  ->  (Fraction q, int c, Fraction r)."""
    assert len(ints) % 5 == 0, len(ints)
    vals = []
    for k in range(0, len(ints), 5):
        a, b, c, d, e = ints[k:k + 5]
        vals.append((Fr(a, b), c, Fr(d, e)))
    return vals


def lfloat(v):
    qv, c, r = v
    return float(qv) + c * HL2P + 0.5 * (math.log(r.numerator) - math.log(r.denominator))


# ------------------------------------------------------------------ comparison
class Obs:
    """Ordered named observations of the implementation: arrays flattened row-major."""

    def __init__(self):
        self.items = []

    def add(self, name, arr, exact=False):
        import numpy as np
        a = np.asarray(arr, dtype=float).reshape(-1)
        self.items.append((name, a, exact))

    def flag(self, name, present):
        self.add(name, [1.0 if present else 0.0], exact=True)

    def nat(self, name, n):
        self.add(name, [float(n)], exact=True)


def compare(obs, ints, tol=TOL):
    """Returns list of disagreements (name, index, impl, model, relerr)."""
    import numpy as np
    vals = decode5(ints)
    total = sum(len(a) for _, a, _ in obs.items)
    if total != len(vals):
        return [("shape", -1, total, len(vals), float("inf"))]
    out = []
    pos = 0
    for name, a, exact in obs.items:
        seg = vals[pos:pos + len(a)]
        pos += len(a)
        exp = np.array([lfloat(v) for v in seg]) if len(seg) else np.zeros(0)
        if len(a) == 0:
            continue
        if exact:
            for k in range(len(a)):
                v = seg[k]
                ok = v[1] == 0 and v[2] == 1 and math.isfinite(a[k]) and Fr(float(a[k])) == v[0]
                if not ok:
                    out.append((name, k, float(a[k]), exp[k], float("inf")))
            continue
        scale = max(1.0, float(np.max(np.abs(exp))))
        bad = ~np.isfinite(a)
        err = np.where(bad, np.inf, np.abs(np.where(bad, 0.0, a) - exp) / scale)
        for k in np.nonzero(err > tol)[0]:
            out.append((name, int(k), float(a[k]), float(exp[k]), float(err[k])))
    return out


def max_rel_err(obs, ints):
    import numpy as np
    vals = decode5(ints)
    pos = 0
    m = 0.0
    for name, a, exact in obs.items:
        seg = vals[pos:pos + len(a)]
        pos += len(a)
        if len(a) == 0 or exact:
            continue
        exp = np.array([lfloat(v) for v in seg])
        scale = max(1.0, float(np.max(np.abs(exp))))
        with np.errstate(invalid="ignore"):
            e = np.abs(a - exp) / scale
        e = e[np.isfinite(e)]
        if len(e):
            m = max(m, float(np.max(e)))
    return m


def close(a, b, tol=TOL, scale=None):
    """|a-b| <= tol * max(1, ||b||_inf) elementwise (shapes must agree)."""
    import numpy as np
    a = np.asarray(a, dtype=float)
    b = np.asarray(b, dtype=float)
    if a.shape != b.shape:
        return False
    if a.size == 0:
        return True
    if not (np.all(np.isfinite(a)) and np.all(np.isfinite(b))):
        return False
    s = scale if scale is not None else max(1.0, float(np.max(np.abs(b))))
    return bool(np.max(np.abs(a - b)) <= tol * s)


def relerr(a, b):
    import numpy as np
    a = np.asarray(a, dtype=float)
    b = np.asarray(b, dtype=float)
    if a.shape != b.shape:
        return float("inf")
    if a.size == 0:
        return 0.0
    if not (np.all(np.isfinite(a)) and np.all(np.isfinite(b))):
        return float("inf")
    return float(np.max(np.abs(a - b)) / max(1.0, float(np.max(np.abs(b)))))
