# Translator for C03: re-derives, from /repo's current source (Python ast, fail-closed), the per-component
# meaning of the `_expectation_*` methods of gaussian_toolbox/measure.py -- straight-line programs of two-operand
# einsums, +, -, *, get_trace, swapaxes, [:, None] broadcasting and calls to each other -- and prints them as Coq
# definitions `gen_*` (gen/GenMoments.v) over the tensor combinators of base/Tensor.v.  coq/gen/GenMomentsEq.v proves
# each of them equal to the hand-written model (model/Moments.v), so the C03 theorems hold for what the source says NOW.
#
# Per-component semantics: every array carries the component (batch) axis first; the translator checks that every einsum
# uses one and the same letter in first position of every operand and of the result (so that component r of the result
# only reads component r of the operands -- anything else is rejected) and drops that axis.
import ast, os, re, warnings

METHODS = ["_expectation_general_linear", "_expectation_xxT", "_expectation_general_quadratic_inner",
           "_expectation_general_quadratic_outer", "_expectation_xbxx", "_expectation_general_cubic_inner",
           "_expectation_general_cubic_outer", "_expectation_general_quartic_outer", "_expectation_general_quartic_inner"]
SELF = {"mu": ("D",), "Sigma": ("D", "D")}


class Unsupported(Exception):
    pass


ONE = "1%N"
FUNC_OPS = {"jnp.add": (ast.Add(), 2), "jnp.subtract": (ast.Sub(), 2), "jnp.multiply": (ast.Mult(), 2), "jnp.negative": (ast.USub(), 1),
            "jnp.matmul": (ast.MatMult(), 2)}


def bcast(da, db):
    """numpy broadcasting of two per-component shapes of equal rank (an axis of extent one stretches)"""
    if len(da) != len(db):
        return None
    out = []
    for x, y in zip(da, db):
        if x == y or y == ONE:
            out.append(x)
        elif x == ONE:
            out.append(y)
        else:
            return None
    return tuple(out)


def ann_dims(node):
    """Float[Array, "#R K D"] -> ('K', 'D') (component axis dropped)"""
    if node is None:
        raise Unsupported("missing annotation")
    s = ast.unparse(node)
    m = re.search(r"""["']([^"']*)["']""", s)
    if not m:
        raise Unsupported("annotation without a shape string: " + s)
    dims = [d.lstrip("#*") for d in m.group(1).split()]
    if not dims or dims[0] != "R":
        raise Unsupported("first axis is not the component axis R: " + s)
    return tuple(dims[1:])


def idx_names(n, used):
    out = []
    k = 0
    while len(out) < n:
        v = "o%d" % k
        k += 1
        if v not in used:
            out.append(v)
    return out


def app(code, idx):
    return "(%s)" % code if not idx else "(%s %s)" % (code, " ".join(idx))


def lam(idx, body):
    return body if not idx else "(fun %s => %s)" % (" ".join(idx), body)


class Tr:
    def __init__(self, sigs):
        self.sigs = sigs          # method name -> (arg names, arg dims, return dims)

    def dim_term(self, d, dimenv):
        if d == "1":
            return "1%N"
        if d not in dimenv:
            raise Unsupported("unknown dimension symbol " + d)
        return dimenv[d]

    def expr(self, node, env, dimenv):
        """returns (coq code, dims) ; dims is a tuple of dimension TERMS (Coq nat terms);
        a per-component scalar that was broadcast by [:, None...] is returned with dims ('bs',)"""
        if isinstance(node, ast.Constant) and isinstance(node.value, (int, float)) and not isinstance(node.value, bool):
            from fractions import Fraction
            q = Fraction(node.value)            # a Python literal is a dyadic rational: exact
            return ("(%d%%:R / %d%%:R)" % (q.numerator, q.denominator) if q >= 0 else "(- (%d%%:R / %d%%:R))" % (-q.numerator, q.denominator)), ()
        if isinstance(node, ast.Name):
            if node.id not in env:
                raise Unsupported("unknown name " + node.id)
            return env[node.id]
        if isinstance(node, ast.Attribute) and isinstance(node.value, ast.Name) and node.value.id == "self" and node.attr in SELF:
            return node.attr.replace("Sigma", "S"), tuple(self.dim_term(d, dimenv) for d in SELF[node.attr])
        # jnp.add / subtract / multiply / negative / matmul are the operators
        if isinstance(node, ast.Call) and ast.unparse(node.func) in FUNC_OPS and not node.keywords:
            op, n = FUNC_OPS[ast.unparse(node.func)]
            if len(node.args) != n:
                raise Unsupported("arity of " + ast.unparse(node.func))
            node = ast.UnaryOp(op=op, operand=node.args[0]) if n == 1 else ast.BinOp(left=node.args[0], op=op, right=node.args[1])
        if isinstance(node, ast.BinOp) and isinstance(node.op, ast.MatMult):
            # per component: [R, m, n] @ [R, n, k] (a rank-1 operand would be read by numpy as a matrix over the component axis)
            (a, da), (b, db) = self.expr(node.left, env, dimenv), self.expr(node.right, env, dimenv)
            if len(da) != 2 or len(db) != 2 or da[1] != db[0] or ONE in (da + db):
                raise Unsupported("matmul of shapes %s %s" % (da, db))
            return "(fun o0 o1 => sumn %s (fun t => %s * %s))" % (da[1], app(a, ["o0", "t"]), app(b, ["t", "o1"])), (da[0], db[1])
        if isinstance(node, ast.BinOp) and isinstance(node.op, (ast.Add, ast.Sub)):
            (a, da), (b, db) = self.expr(node.left, env, dimenv), self.expr(node.right, env, dimenv)
            dd = bcast(da, db)
            if dd is None or da == ("bs",) or db == ("bs",):
                raise Unsupported("+/- of different shapes %s %s" % (da, db))
            op = "+" if isinstance(node.op, ast.Add) else "-"
            ix = idx_names(len(dd), set())
            return lam(ix, "%s %s %s" % (app(a, ix), op, app(b, ix))), dd
        if isinstance(node, ast.BinOp) and isinstance(node.op, ast.Mult):
            (a, da), (b, db) = self.expr(node.left, env, dimenv), self.expr(node.right, env, dimenv)
            if da != ("bs",) and db != ("bs",) and len(da) == len(db) and len(da) > 0:
                dd = bcast(da, db)
                if dd is None:
                    raise Unsupported("* of shapes %s %s" % (da, db))
                ix = idx_names(len(dd), set())
                return lam(ix, "%s * %s" % (app(a, ix), app(b, ix))), dd
            if da == ("bs",) and db != ("bs",):
                ix = idx_names(len(db), set())
                return lam(ix, "(%s) * %s" % (a, app(b, ix))), db
            if db == ("bs",) and da != ("bs",):
                ix = idx_names(len(da), set())
                return lam(ix, "%s * (%s)" % (app(a, ix), b)), da
            if da == () and db == ():
                return "(%s) * (%s)" % (a, b), ()
            if da == () and db != ("bs",):          # a python scalar / per-component scalar times an array of the same component
                ix = idx_names(len(db), set())
                return lam(ix, "(%s) * %s" % (a, app(b, ix))), db
            if db == () and da != ("bs",):
                ix = idx_names(len(da), set())
                return lam(ix, "%s * (%s)" % (app(a, ix), b)), da
            raise Unsupported("* of shapes %s %s" % (da, db))
        if isinstance(node, ast.UnaryOp) and isinstance(node.op, ast.USub):
            a, da = self.expr(node.operand, env, dimenv)
            if da == ("bs",):
                return "- (%s)" % a, da
            ix = idx_names(len(da), set())
            return lam(ix, "- %s" % app(a, ix)), da
        if isinstance(node, ast.Subscript):
            a, da = self.expr(node.value, env, dimenv)
            sl = node.slice.elts if isinstance(node.slice, ast.Tuple) else [node.slice]
            full = lambda s_: isinstance(s_, ast.Slice) and s_.lower is None and s_.upper is None and s_.step is None
            none = lambda s_: isinstance(s_, ast.Constant) and s_.value is None
            if not (len(sl) >= 2 and full(sl[0]) and all(full(s_) or none(s_) for s_ in sl[1:])) or da == ("bs",):
                raise Unsupported("subscript other than [:, (: | None), ...]: " + ast.unparse(node))
            if da == () and all(none(s_) for s_ in sl[1:]):
                return a, ("bs",)
            # x[:, :, None] etc.: a new axis of extent one, which broadcasts (as a function it ignores that index)
            if sum(1 for s_ in sl[1:] if full(s_)) != len(da):
                raise Unsupported("subscript does not address every axis: " + ast.unparse(node))
            ix = idx_names(len(sl) - 1, set())
            keep = [i for i, s_ in zip(ix, sl[1:]) if full(s_)]
            it = iter(da)
            return lam(ix, app(a, keep)), tuple(next(it) if full(s_) else ONE for s_ in sl[1:])
        if isinstance(node, ast.Call):
            f = node.func
            fn = ast.unparse(f)
            if fn == "jnp.einsum":
                return self.einsum(node, env, dimenv)
            if fn == "self.get_trace":
                if len(node.args) != 1 or node.keywords:
                    raise Unsupported("get_trace arguments")
                a, da = self.expr(node.args[0], env, dimenv)
                if len(da) != 2 or da[0] != da[1]:
                    raise Unsupported("get_trace of a non-square array %s" % (da,))
                return "sumn %s (fun t => %s)" % (da[0], app(a, ["t", "t"])), ()
            if fn == "jnp.swapaxes":
                kw = {k.arg: k.value for k in node.keywords}
                ax = [ast.literal_eval(kw[k]) for k in ("axis1", "axis2")] if set(kw) == {"axis1", "axis2"} else None
                if len(node.args) != 1 or ax is None or sorted(ax) != [1, 2]:
                    raise Unsupported("swapaxes other than axes 1, 2")
                a, da = self.expr(node.args[0], env, dimenv)
                if len(da) != 2:
                    raise Unsupported("swapaxes of rank %d" % len(da))
                return "(fun o0 o1 => %s)" % app(a, ["o1", "o0"]), (da[1], da[0])
            if isinstance(f, ast.Attribute) and isinstance(f.value, ast.Name) and f.value.id == "self" and f.attr in self.sigs:
                names, dims, ret = self.sigs[f.attr]
                if node.keywords or len(node.args) != len(names):
                    raise Unsupported("call of %s with keywords / wrong arity" % f.attr)
                sub = {}
                codes = []
                for arg, dn in zip(node.args, dims):
                    c, dc = self.expr(arg, env, dimenv)
                    if len(dc) != len(dn) or dc == ("bs",):
                        raise Unsupported("argument rank mismatch in call of " + f.attr)
                    for sym, term in zip(dn, dc):
                        if sym in ("D", "1"):
                            if term != self.dim_term(sym, dimenv):
                                raise Unsupported("dimension mismatch in call of " + f.attr)
                        elif sub.setdefault(sym, term) != term:
                            raise Unsupported("inconsistent dimension %s in call of %s" % (sym, f.attr))
                    codes.append("(%s)" % c)
                syms = sorted({s for dn in dims for s in dn if s not in ("D", "1")})
                call = "gen%s %s" % (f.attr.replace("_expectation", ""), " ".join([sub[s] for s in syms] + codes))
                return "(%s)" % call.strip(), tuple(sub.get(s, self.dim_term(s, dimenv)) if s not in ("D", "1") else self.dim_term(s, dimenv) for s in ret)
        raise Unsupported("expression " + ast.unparse(node)[:80])

    def einsum(self, node, env, dimenv):
        if node.keywords or len(node.args) not in (2, 3) or not isinstance(node.args[0], ast.Constant):
            raise Unsupported("einsum form")
        spec = node.args[0].value.replace(" ", "")
        ins, out = spec.split("->")
        subs = ins.split(",")
        ops = [self.expr(a, env, dimenv) for a in node.args[1:]]
        if len(subs) != len(ops):
            raise Unsupported("einsum arity")
        batch = subs[0][0]
        if any(not s or s[0] != batch for s in subs) or not out or out[0] != batch:
            raise Unsupported("einsum %s does not keep the component axis first in every operand and in the result" % spec)
        letter_dim = {}
        for s, (c, dc) in zip(subs, ops):
            ls = s[1:]
            if dc == ("bs",) or len(ls) != len(dc) or batch in ls:
                raise Unsupported("einsum %s: operand rank" % spec)
            for l, t in zip(ls, dc):
                if letter_dim.setdefault(l, t) != t:
                    raise Unsupported("einsum %s: letter %s has two extents (%s, %s)" % (spec, l, letter_dim[l], t))
        lo = out[1:]
        if batch in lo or len(set(lo)) != len(lo) or any(l not in letter_dim for l in lo):
            raise Unsupported("einsum %s: result subscripts" % spec)
        summed = [l for l in dict.fromkeys("".join(s[1:] for s in subs)) if l not in lo]
        body = " * ".join(app(c, ["i_" + l for l in s[1:]]) for s, (c, _) in zip(subs, ops))
        for l in reversed(summed):
            body = "sumn %s (fun i_%s => %s)" % (letter_dim[l], l, body)
        return lam(["i_" + l for l in lo], body), tuple(letter_dim[l] for l in lo)


def get_trace_ok(repo):
    with warnings.catch_warnings():
        warnings.simplefilter("ignore")
        t = ast.parse(open(os.path.join(repo, "gaussian_toolbox", "factor.py")).read())
    for n in ast.walk(t):
        if isinstance(n, ast.FunctionDef) and n.name == "get_trace":
            body = [b for b in n.body if not (isinstance(b, ast.Expr) and isinstance(b.value, ast.Constant))]
            return len(body) == 1 and ast.unparse(body[0]) == "return jnp.sum(A.diagonal(axis1=-1, axis2=-2), axis=1)"
    return False


def wiring(funcs):
    """the integration table (key -> integrate_* method) and, for every general integrate_* wrapper, the pairs it passes through
    _get_default (in order), the _expectation_* method it multiplies by the total mass and the arguments it hands over (in order)"""
    if "integration_dict" not in funcs:
        raise Unsupported("integration_dict not found")
    dicts = [n for n in ast.walk(funcs["integration_dict"]) if isinstance(n, ast.Dict)]
    if len(dicts) != 1:
        raise Unsupported("integration_dict is not one dict literal")
    table = []
    for k, v in zip(dicts[0].keys, dicts[0].values):
        if not (isinstance(k, ast.Constant) and isinstance(k.value, str) and isinstance(v, ast.Attribute) and isinstance(v.value, ast.Name) and v.value.id == "self"):
            raise Unsupported("integration_dict entry " + ast.unparse(k))
        table.append((k.value, v.attr))
    wrappers = []
    for key, name in table:
        if not name.startswith("integrate_general"):
            continue
        f = funcs.get(name)
        if f is None:
            raise Unsupported("wrapper %s not found" % name)
        body = [b for b in f.body if not (isinstance(b, ast.Expr) and isinstance(b.value, ast.Constant))]
        defaults = []
        for st in body[:-2]:
            ok = (isinstance(st, ast.Assign) and len(st.targets) == 1 and isinstance(st.targets[0], ast.Tuple)
                  and isinstance(st.value, ast.Call) and ast.unparse(st.value.func) == "self._get_default" and not st.value.keywords
                  and [ast.unparse(t) for t in st.targets[0].elts] == [ast.unparse(a) for a in st.value.args] and len(st.value.args) == 2)
            if not ok:
                raise Unsupported("statement in %s: %s" % (name, ast.unparse(st)[:60]))
            defaults.append(tuple(ast.unparse(a) for a in st.value.args))
        if len(body) < 2 or ast.unparse(body[-2]) != "constant = self.integral()" or not isinstance(body[-1], ast.Return):
            raise Unsupported("wrapper %s does not end with constant = self.integral(); return ..." % name)
        calls = [n for n in ast.walk(body[-1]) if isinstance(n, ast.Call) and isinstance(n.func, ast.Attribute) and n.func.attr.startswith("_expectation")]
        if len(calls) != 1 or calls[0].keywords or not all(isinstance(a, ast.Name) for a in calls[0].args):
            raise Unsupported("wrapper %s: expectation call" % name)
        ret = body[-1].value
        # constant * E, constant[:, None(, None)] * E, or einsum("a,a..->a..", constant, E): the mass multiplies every entry of its component
        form = None
        if isinstance(ret, ast.BinOp) and isinstance(ret.op, ast.Mult) and ret.right is calls[0] and ast.unparse(ret.left) in ("constant", "constant[:, None]", "constant[:, None, None]"):
            form = "scale"
        if isinstance(ret, ast.Call) and ast.unparse(ret.func) == "jnp.einsum" and len(ret.args) == 3 and isinstance(ret.args[0], ast.Constant) \
                and re.fullmatch(r"a,a(\w*)->a\1", ret.args[0].value.replace(" ", "")) and ast.unparse(ret.args[1]) == "constant" and ret.args[2] is calls[0]:
            form = "scale"
        if form is None:
            raise Unsupported("wrapper %s: the result is not (total mass) * expectation" % name)
        flat = [x for pr in defaults for x in pr]
        wrappers.append((key, name, calls[0].func.attr, [a.id for a in calls[0].args], flat))
    return table, wrappers


def translate(repo):
    """returns (coq text, list of translated method names, dict of skipped: reason)"""
    with warnings.catch_warnings():
        warnings.simplefilter("ignore")
        tree = ast.parse(open(os.path.join(repo, "gaussian_toolbox", "measure.py")).read())
    cls = [n for n in tree.body if isinstance(n, ast.ClassDef) and n.name == "GaussianMeasure"]
    if len(cls) != 1:
        raise Unsupported("class GaussianMeasure not found")
    if not get_trace_ok(repo):
        raise Unsupported("factor.get_trace is not the sum of the diagonal any more")
    funcs = {f.name: f for f in cls[0].body if isinstance(f, ast.FunctionDef)}
    sigs = {}
    for m in METHODS:
        if m not in funcs:
            raise Unsupported("method %s not found" % m)
        f = funcs[m]
        args = f.args.args[1:]
        if f.args.vararg or f.args.kwarg or f.args.kwonlyargs or f.args.defaults:
            raise Unsupported("signature of " + m)
        sigs[m] = ([a.arg for a in args], [ann_dims(a.annotation) for a in args], ann_dims(f.returns))
    tr = Tr(sigs)
    out = ["(* GENERATED by harness/moments_translate.py from gaussian_toolbox/measure.py -- do not edit *)",
           "From mathcomp Require Import all_ssreflect all_algebra.", "From GT Require Import Tensor.",
           "Set Implicit Arguments.", "Unset Strict Implicit.", "Import GRing.Theory.", "Local Open Scope ring_scope.",
           "Section GenMoments.", "Variable F : realFieldType.", "Variable D : nat.", "Variables (mu : vec F) (S : mat F).", ""]
    done = []
    for m in METHODS:
        f = funcs[m]
        names, dims, ret = sigs[m]
        syms = sorted({s for dn in dims for s in dn if s not in ("D", "1")})
        dimenv = dict(D="D", **{s: s for s in syms})
        env = {n: (n, tuple(tr.dim_term(s, dimenv) for s in dn)) for n, dn in zip(names, dims)}
        body = [b for b in f.body if not (isinstance(b, ast.Expr) and isinstance(b.value, ast.Constant))]
        lets = []
        result = None
        for st in body:
            if isinstance(st, ast.Assign) and len(st.targets) == 1 and isinstance(st.targets[0], ast.Name):
                c, dc = tr.expr(st.value, env, dimenv)
                v = "v_" + st.targets[0].id
                lets.append("let %s := %s in" % (v, c))
                env[st.targets[0].id] = (v, dc)
            elif (isinstance(st, ast.Assign) and len(st.targets) == 1 and isinstance(st.targets[0], (ast.Tuple, ast.List))
                  and all(isinstance(t, ast.Name) for t in st.targets[0].elts)
                  and isinstance(st.value, (ast.ListComp, ast.Tuple, ast.List))):
                # several names at once: a tuple / list of expressions, or a comprehension over a literal tuple of expressions
                v_ = st.value
                if isinstance(v_, ast.ListComp):
                    g_ = v_.generators
                    if len(g_) != 1 or g_[0].ifs or g_[0].is_async or not isinstance(g_[0].target, ast.Name) or not isinstance(g_[0].iter, (ast.Tuple, ast.List)):
                        raise Unsupported("comprehension in %s: %s" % (m, ast.unparse(st)[:60]))
                    vals = []
                    for it_ in g_[0].iter.elts:
                        env2 = dict(env); env2[g_[0].target.id] = tr.expr(it_, env, dimenv)
                        vals.append(tr.expr(v_.elt, env2, dimenv))
                else:
                    vals = [tr.expr(e_, env, dimenv) for e_ in v_.elts]
                if len(vals) != len(st.targets[0].elts):
                    raise Unsupported("unpacking arity in %s" % m)
                for t_, (c, dc) in zip(st.targets[0].elts, vals):
                    v = "v_" + t_.id
                    lets.append("let %s := %s in" % (v, c))
                    env[t_.id] = (v, dc)
            elif isinstance(st, ast.Return) and st is body[-1]:
                result = tr.expr(st.value, env, dimenv)
            else:
                raise Unsupported("statement in %s: %s" % (m, ast.unparse(st)[:60]))
        if result is None:
            raise Unsupported("no return in " + m)
        c, dc = result
        want = tuple(tr.dim_term(s, dimenv) for s in ret)
        if dc != want:
            raise Unsupported("%s returns shape %s, annotated %s" % (m, dc, want))
        ty = {0: "F", 1: "vec F", 2: "mat F"}[len(dc)]
        params = " ".join(["(%s : nat)" % s for s in syms] + ["(%s : %s)" % (n, {1: "vec F", 2: "mat F"}[len(dn)]) for n, dn in zip(names, dims)])
        out.append("Definition gen%s %s : %s :=\n  %s\n  %s." % (m.replace("_expectation", ""), params, ty, "\n  ".join(lets), c))
        out.append("")
        done.append(m)
    out.append("End GenMoments.")
    table, wrappers = wiring(funcs)
    cs = lambda x: '"%s"' % x
    out += ["From Coq Require Import String List.", "Import ListNotations.", "Open Scope string_scope.",
            "(* the integration table: documented expression -> method *)",
            "Definition dispatch : list (string * string) := [" + "; ".join("(%s, %s)" % (cs(k), cs(v)) for k, v in table) + "].",
            "(* general wrappers: (expression, wrapper, expectation it scales by the total mass, arguments handed over, arguments passed through _get_default) *)",
            "Definition wrappers : list (string * string * string * list string * list string) := [" +
            "; ".join("(%s, %s, %s, [%s], [%s])" % (cs(k), cs(n), cs(e), "; ".join(cs(a) for a in args), "; ".join(cs(a) for a in dfl)) for k, n, e, args, dfl in wrappers) + "]."]
    return "\n".join(out) + "\n", done


if __name__ == "__main__":
    import sys
    txt, done = translate(sys.argv[1] if len(sys.argv) > 1 else "/repo")
    sys.stdout.write(txt)
