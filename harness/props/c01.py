# C01: product with a conjugate factor is pointwise multiplication.
import itertools
from .. import gtlib
from ..gtlib import cmat, cbool, Obs, jarr
from . import common as C

PROPS_FILE = ["props/C01.v", "props/GI7.v"]
TRUSTED_EXTRA = ["props/GI7.v (the mass of a product as an iterated improper Riemann integral, at Coq's real numbers) depends on the standard-library axioms ClassicalDedekindReals.sig_not_dec, sig_forall_dec, FunctionalExtensionality.functional_extensionality_dep, Classical_Prop.classic, Epsilon.epsilon_statement"]
IMPORTS = ""
RULE = ("cases = factorial design over factor kind {general, onerank (a third of them with some NEGATIVE weights g, product still positive definite), linear, constant, measure, pdf} x op "
        "{multiply, *, hadamard, product, factor.product} x update_full x measure-cache-warm, assigned round-robin "
        "to seeded shape tuples (R1,R2,D); rational parameters; non-trivial = R1*R2*D > 1 (more than one scalar "
        "component involved); distinct = distinct SHA1 of the full input description")
EXPLANATION = ("theorems: props/C01.v over the polymorphic model; correspondence: model at Qc (vm_compute) vs "
               "implementation (float64) on evaluate_ln at 3 points, Lambda/nu/ln_beta, every cache; property oracle on "
               "the implementation: result.evaluate_ln(x)[i*R2+j] == u.evaluate_ln(x)[i] + f.evaluate_ln(x)[j], operand "
               "snapshots before/after")
KINDS = ["general", "onerank", "linear", "constant", "measure", "pdf"]


def pre_check(workdir, tier):
    """translator tie for "the operands are left unchanged" (harness/purity_extract.py): the places where a product /
    evaluation / slice method stores into one of its operands are re-derived from /repo's current source and
    coq/schema/PurityThm.v (there are none) is re-checked against them"""
    import os, shutil, subprocess
    from .. import purity_extract as pe
    d = os.path.join(workdir, "purity")
    os.makedirs(d, exist_ok=True)
    names = ["operands_never_stored_to", "purity_methods_seen", "slices_return_fresh_objects", "slice_methods_seen"]
    try:
        res = pe.extract(gtlib.REPO)
    except Exception as e:
        return dict(ok=False, theorems=names, error="translator failed closed: %s: %s" % (type(e).__name__, e))
    open(os.path.join(d, "Purity.v"), "w").write(pe.to_coq(res, pe.slice_returns(gtlib.REPO)))
    shutil.copy(os.path.join(gtlib.COQ, "schema", "PurityThm.v"), d)
    r1 = subprocess.run(["coqc", "-Q", ".", "", "Purity.v"], cwd=d, capture_output=True, text=True, timeout=300)
    r2 = subprocess.run(["coqc", "-Q", ".", "", "PurityThm.v"], cwd=d, capture_output=True, text=True, timeout=300)
    return dict(ok=(r1.returncode == 0 and r2.returncode == 0), theorems=names, methods=len(res),
                stores={n: l for n, l in res if l}, closed=r2.stdout.count("Closed under the global context"), error=(r1.stderr + r2.stderr)[-800:])


def gen_descs(g, tier):
    nshape = 8 if tier == "quick" else 40
    per = 12 if tier == "quick" else 40
    combos = [(k, op, upd, c) for k in KINDS for op in ("multiply", "mul", "hadamard")
              for upd in (False, True) for c in (False, True) if not (op == "mul" and upd)]
    g.shuffle(combos)
    shapes = [(1, 1, 1), (2, 3, 2), (3, 2, 3)]
    while len(shapes) < nshape:
        s = (g.randint(1, 4), g.randint(1, 4), g.randint(1, 4 if tier == "quick" else 5))
        if s not in shapes:
            shapes.append(s)
    descs = []
    ci = 0
    for (R1, R2, D) in shapes:
        for rep in range(per):
            kind, op, upd, cached = combos[ci % len(combos)]
            ci += 1
            Rf = R2
            Ru = R1
            if op == "hadamard":
                # equal batch sizes, or one side a single component (broadcast)
                mode = g.choice(["eq", "f1", "u1"])
                if mode == "eq":
                    Rf = R1
                elif mode == "f1":
                    Rf = 1
                else:
                    Ru = 1
            d = dict(scn="binop", kind=kind, op=op, upd=upd, cached=cached,
                     u=C.gen_measure(g, Ru, D), f=C.gen_factor(g, kind, Rf, D), xs=g.mat(3, D))
            C.neg_weights(g, d["u"], d["f"])
            descs.append(C.J(d))
        # product() of a measure (cached / not) and of a factor
        for cached in (False, True):
            descs.append(C.J(dict(scn="uproduct", cached=cached, u=C.gen_measure(g, R1, D, diag=(g.randint(0, 2) == 0)), xs=g.mat(3, D))))
        descs.append(C.J(dict(scn="fproduct", f=C.gen_factor(g, g.choice(KINDS[:4]), R2, D), xs=g.mat(3, D))))
    return descs


def search_descs(g, failing, tier):
    # neighbours of disagreeing cases: same scenario, smaller shapes, fresh parameters
    out = []
    for d in failing[:20]:
        d = C.U(d)
        if d["scn"] != "binop":
            continue
        for (R1, R2, D) in [(1, 1, 1), (2, 1, 1), (1, 2, 1), (2, 2, 2), (d["u"]["R"], d["f"]["R"], d["u"]["D"])]:
            Rf = R2 if d["op"] != "hadamard" else g.choice([1, R1])
            d2 = dict(scn="binop", kind=d["kind"], op=d["op"], upd=d["upd"], cached=d["cached"],
                      u=C.gen_measure(g, R1, D), f=C.gen_factor(g, d["kind"], Rf, D), xs=g.mat(3, D))
            C.neg_weights(g, d2["u"], d2["f"])
            out.append(C.J(d2))
    return out


def scenario(d):
    if d["scn"] == "binop":
        return "%s/%s/upd=%s/cached=%s" % (d["kind"], d["op"], d["upd"], d["cached"])
    return d["scn"]


def nontrivial(d):
    if d["scn"] == "binop":
        return d["u"]["R"] * d["f"]["R"] * d["u"]["D"] > 1
    o = d.get("u") or d.get("f")
    return o["R"] * o["D"] > 1


def hist(d):
    if d["scn"] == "binop":
        return dict(kind=d["kind"], op=d["op"], upd=d["upd"], cached=d["cached"],
                    R1=d["u"]["R"], R2=d["f"]["R"], D=d["u"]["D"])
    return dict(op=d["scn"])


def coq_term(d):
    d = C.U(d)
    if d["scn"] == "binop":
        u = C.coq_measure(d["u"])
        if d["cached"]:
            u = "(prepare %s)" % u
        f = C.coq_factor(d["f"])
        if d["op"] in ("multiply", "mul"):
            r = "(multiply %s %s %s)" % (cbool(d["upd"]), u, f)
        else:
            r = "(hadamard %s %s %s)" % (cbool(d["upd"]), u, f)
        return "let r := %s in obs_ueval r %s ++ obs_ucore r ++ obs_ucache r" % (r, cmat(d["xs"]))
    if d["scn"] == "uproduct":
        u = C.coq_measure(d["u"])
        if d["cached"]:
            u = "(prepare %s)" % u
        return "let r := uproduct %s in obs_ueval r %s ++ obs_ucore r ++ obs_ucache r" % (u, cmat(d["xs"]))
    if d["scn"] == "fproduct":
        return "let r := fproduct %s in obs_feval r %s ++ obs_fcore r" % (C.coq_factor(d["f"]), cmat(d["xs"]))
    raise ValueError(d["scn"])


def run_impl(d):
    import numpy as np
    d = C.U(d)
    ob = Obs()
    fails = []
    xs = jarr(d["xs"])
    if d["scn"] == "binop":
        u = C.impl_measure(d["u"])
        if d["cached"]:
            u.integrate()
        f = C.impl_factor(d["f"])
        su, sf = C.snapshot(u), C.snapshot(f)
        eu = np.asarray(u.evaluate_ln(xs))
        ef = np.asarray(f.evaluate_ln(xs))
        if d["op"] == "multiply":
            r = u.multiply(f, update_full=d["upd"])
        elif d["op"] == "mul":
            r = u * f
        else:
            r = u.hadamard(f, update_full=d["upd"])
        er = np.asarray(r.evaluate_ln(xs))
        # property-level oracle, independent of the model
        R1, R2 = d["u"]["R"], d["f"]["R"]
        if d["op"] in ("multiply", "mul"):
            exp = (eu[:, None, :] + ef[None, :, :]).reshape(R1 * R2, -1)
        else:
            exp = np.broadcast_to(eu, (max(R1, R2), eu.shape[1])) + np.broadcast_to(ef, (max(R1, R2), ef.shape[1]))
        if not gtlib.close(er, exp):
            fails.append(dict(what="pointwise-product", site="%s.%s" % (d["kind"], d["op"]), key=None,
                              relerr=gtlib.relerr(er, exp), shape_got=list(er.shape), shape_exp=list(exp.shape)))
        # element-wise evaluation agrees with the diagonal of the full one
        if er.shape[0] == 3:
            ew = np.asarray(r.evaluate_ln(xs, element_wise=True))
            if not gtlib.close(ew, np.diagonal(er)):
                fails.append(dict(what="element_wise-evaluation", site="evaluate_ln", key=None))
        k = C.snap_equal(su, C.snapshot(u))
        if k is not None:
            fails.append(dict(what="operand-mutated", site="measure.%s" % k, key=None))
        k = C.snap_equal(sf, C.snapshot(f))
        if k is not None:
            fails.append(dict(what="operand-mutated", site="factor.%s" % k, key=None))
        ob.add("evaluate_ln", er)
        C.obs_ucore(ob, r, R=er.shape[0])
        C.obs_ucache(ob, r)
        return ob, fails
    if d["scn"] == "uproduct":
        u = C.impl_measure(d["u"])
        if d["cached"]:
            u.integrate()
        su = C.snapshot(u)
        eu = np.asarray(u.evaluate_ln(xs))
        r = u.product()
        er = np.asarray(r.evaluate_ln(xs))
        if not gtlib.close(er, eu.sum(axis=0, keepdims=True)):
            fails.append(dict(what="product-of-components", site="measure.product", key=None))
        # __call__ is the function value itself: u(x) = exp(evaluate_ln(x))
        if not gtlib.close(np.asarray(u(xs)), np.exp(eu)) or not gtlib.close(np.asarray(r(xs)), np.exp(er)):
            fails.append(dict(what="__call__ != exp(evaluate_ln)", site="measure.__call__", key=None))
        if C.snap_equal(su, C.snapshot(u)) is not None:
            fails.append(dict(what="operand-mutated", site="measure.product", key=None))
        ob.add("evaluate_ln", er)
        C.obs_ucore(ob, r)
        C.obs_ucache(ob, r)
        return ob, fails
    if d["scn"] == "fproduct":
        f = C.impl_factor(d["f"])
        ef = np.asarray(f.evaluate_ln(xs))
        r = f.product()
        er = np.asarray(r.evaluate_ln(xs))
        if not gtlib.close(er, ef.sum(axis=0, keepdims=True)):
            fails.append(dict(what="product-of-components", site="factor.product", key=None))
        ob.add("evaluate_ln", er)
        C.obs_ucore(ob, r)
        return ob, fails
    raise ValueError(d["scn"])
