# C02: reported total mass equals the true integral; densities integrate to one
from . import lin, common as C
PROP = "C02"
PROPS_FILE = ["props/C02.v", "props/GI.v"]
TRUSTED_EXTRA = ["props/GI.v (the Gaussian-integral specification as a theorem about iterated improper Riemann integrals, at Coq's real numbers: stdlib Reals + Coquelicot + base/RField.v) depends on the standard-library axioms ClassicalDedekindReals.sig_not_dec, sig_forall_dec, FunctionalExtensionality.functional_extensionality_dep, Classical_Prop.classic, Epsilon.epsilon_statement (choiceType structure of R); the theorems of props/C02.v themselves (every real field) stay closed under the global context"]
RULE = ('cases = GaussianPDF/GaussianDiagPDF constructor x {Sigma; Sigma+Lambda; Sigma+Lambda+ln_det} x (R,D); measures (full/diag) queried in three orders (light first, full first, get_density first) then normalised; every density-returning API: get_marginal, linear sum, condition_on_x (5 classes), joint/marginal transformation (5 classes x 3 batch layouts x 3 dimension regimes)' "; rational parameters (small integers over denominators 1,2,4; SPD = B B' + d I, cond <= 1e3), random constructor "
        "argument combination; non-trivial = more than one scalar dimension/component involved; distinct = SHA1 of the input description")
EXPLANATION = ('model (Measure.v mk_pdf/log_integral/normalize/get_density, Pdf.v, Cond.v) at Qc vs implementation on all public attributes and evaluate_ln; oracle: true log-integral by numpy inv/slogdet, independent normal log-density of the exactly known mean/covariance')
coq_term = lin.coq_term
alt_terms = lin.alt_terms
run_impl = lin.filtered(PROP)
hist, nontrivial, scenario = lin.hist, lin.nontrivial, lin.scenario


def gen_descs(g, tier):
    q = tier == "quick"
    out = []
    for R in (1, 2, 4):
        for D in (1, 2, 3, 4):
            for diag in (False, True):
                for ctor in (["Sigma", "Sigma+Lambda", "all"] if (q and D < 4) or not q else ["Sigma"]):
                    out.append(lin.gen_scn(g, "ctor", R=R, D=D, diag=diag, ctor=ctor))
            out.append(lin.gen_scn(g, "measure_int", R=R, D=D))
            out.append(lin.gen_scn(g, "measure_int", R=R, D=D, diag=True))
            out.append(lin.gen_scn(g, "marginal", R=R, D=D))
            out.append(lin.gen_scn(g, "linsum", R=R, D=D))
    # a diagonal density in high dimension: its determinant is outside the float range, its log-determinant ordinary
    out.append(lin.gen_scn(g, "ctor", R=1, D=40, diag=True, highdim=40))
    # "also after the object has been multiplied": products with every factor kind, both update modes, with and
    # without a covariance cached by an earlier query, equal and unequal batch sizes > 1, weights g != 1
    for kind in ("general", "onerank", "linear", "constant"):
        for op in ("multiply", "hadamard"):
            for upd in (False, True):
                for cached in (False, True):
                    for _ in range(1 if q else 8):
                        R1 = g.randint(2, 3); D = g.randint(1, 3)
                        R2 = R1 if (op == "hadamard" or g.randint(0, 1)) else g.randint(2, 3)
                        d = lin.gen_scn(g, "measure_int", R=R1, D=D)
                        d["mul"] = dict(op=op, upd=upd, cached=cached, f=C.gen_factor(g, kind, R2, D))
                        out.append(d)
    for (cls, Rc, Rx, Dy, Dx) in lin.shapes_cond(g, tier, 0 if q else 200):
        if q and (Dy, Dx) == (2, 2) and Rc + Rx > 2:
            continue
        for scn in ("cond_x", "joint", "marg_t"):
            out.append(lin.gen_scn(g, scn, cls=cls, Rc=Rc, Rx=Rx, Dy=Dy, Dx=Dx))
    for _ in range(0 if q else 600):
        out.append(lin.gen_scn(g, g.choice(["ctor", "measure_int", "marginal", "linsum"]), R=g.randint(1, 4), D=g.randint(1, 5), diag=bool(g.randint(0, 1))))
    return [C.J(d) for d in out]


def search_descs(g, failing, tier):
    # neighbours of the disagreeing cases: same scenario and class, the smallest shapes of every layout
    out = []
    for d in failing[:8]:
        kw = dict(cls=d["c"]["cls"]) if "c" in d else {}
        for (Rc, Rx) in [(1, 1), (1, 2), (2, 1)]:
            for (Dy, Dx) in [(1, 1), (1, 2), (2, 1)]:
                try:
                    out.append(C.J(lin.gen_scn(g, d["scn"], R=Rx, D=max(Dx, 2), Rc=Rc, Rx=Rx, Dy=Dy, Dx=Dx, **kw)))
                except Exception:
                    pass
    return out
