# C03: polynomial integrals equal the exact Gaussian moments (Isserlis / Wick).
from fractions import Fraction as Fr
from .. import gtlib
from ..gtlib import cq, cvec, cmat, cb3, cbool, cseq, jarr, Obs
from . import common as C, lin

PROP = "C03"
PROPS_FILE = ["props/C03.v", "props/GI3.v"]
TRUSTED_EXTRA = ["props/GI3.v (first and second order Wick expectations as iterated improper Riemann integrals, at Coq's real numbers: stdlib Reals + Coquelicot + base/RField.v) depends on the standard-library axioms ClassicalDedekindReals.sig_not_dec, sig_forall_dec, FunctionalExtensionality.functional_extensionality_dep, Classical_Prop.classic, Epsilon.epsilon_statement; the theorems of props/C03.v (every real field) stay closed under the global context"]
RULE = ("cases = 12 polynomial keys x coefficient mode {shared 2-D/1-D, per-component 3-D/2-D, mixed, defaulted matrix or "
        "vector} x shapes D in 1..6, pairwise different K,L,M in 1..5, R in 1..3; exact mode: GaussianPDF with integer Sigma, "
        "mu and integer coefficients (results are integers < 2^53, compared bit for bit), tolerance mode: un-normalised "
        "measures with rational parameters; non-trivial = D*R > 1 and a key of order >= 2; distinct = SHA1 of the input")
EXPLANATION = ("model Moments.v (per-component expectation formulas + _get_default) at Qc vs implementation "
               "integrate(key)/integral() (bit-exact in exact mode) and log_integral; oracle: Wick/Isserlis recursion in "
               "fractions.Fraction on the exact mean and covariance")
hist = lambda d: dict(key=d["key"], mode=d["mode"], R=d["o"]["R"], D=d["o"]["D"], exact=d["exact"],
                      dims="%s/%s/%s" % (d.get("K"), d.get("L"), d.get("M")), history=(d.get("history") or {}).get("kind", "fresh"))
nontrivial = lambda d: d["o"]["R"] * d["o"]["D"] > 1 and d["key"] not in ("x",)
scenario = lambda d: "%s/%s/%s" % (d["key"], d["mode"], "exact" if d["exact"] else "tol")

# key -> list of (form name, dimension symbol); forms paired in an inner product share the symbol
KEYS = {
    "x": [],
    "(Ax+a)": [("A", "K")],
    "xx'": [],
    "(Ax+a)'(Bx+b)": [("A", "K"), ("B", "K")],
    "(Ax+a)(Bx+b)'": [("A", "K"), ("B", "L")],
    "(Ax+a)(Bx+b)'(Cx+c)": [("A", "K"), ("B", "L"), ("C", "L")],
    "(Ax+a)'(Bx+b)(Cx+c)'": [("A", "K"), ("B", "K"), ("C", "L")],
    "x(A'x + a)x'": "cubic_outer",
    "xb'xx'": "xbxx",
    "(Ax+a)'(Bx+b)(Cx+c)'(Dx+d)": [("A", "K"), ("B", "K"), ("C", "L"), ("D", "L")],
    "(Ax+a)(Bx+b)'(Cx+c)(Dx+d)'": [("A", "K"), ("B", "L"), ("C", "L"), ("D", "M")],
}
COQFN = {
    "(Ax+a)": "int_linear", "(Ax+a)'(Bx+b)": "int_quadratic_inner", "(Ax+a)(Bx+b)'": "int_quadratic_outer",
    "(Ax+a)(Bx+b)'(Cx+c)": "int_cubic_inner", "(Ax+a)'(Bx+b)(Cx+c)'": "int_cubic_outer_general",
    "(Ax+a)'(Bx+b)(Cx+c)'(Dx+d)": "int_quartic_inner", "(Ax+a)(Bx+b)'(Cx+c)(Dx+d)'": "int_quartic_outer",
}


def gen_case(g, key, R, D, exact, mode):
    dims = dict(K=None, L=None, M=None)
    ks = [1, 2, 3, 4, 5]
    g.shuffle(ks)
    dims["K"], dims["L"], dims["M"] = ks[0], ks[1], ks[2]          # pairwise different
    num = (lambda: Fr(g.randint(-2, 2))) if exact else (lambda: g.q())
    if exact:
        o = C.gen_pdf(g, R, D, integer=True); o["kind"] = "pdf"
    else:
        o = C.gen_measure(g, R, D); o["kind"] = "measure"
    d = dict(key=key, mode=mode, exact=exact, o=o, forms={}, **dims)
    spec = KEYS[key]
    if spec == "xbxx":
        per = mode in ("per", "mixed") and R > 1
        d["forms"]["b"] = dict(per=per, val=[[num() for _ in range(D)] for _ in range(R if per else 1)])
        return d
    if spec == "cubic_outer":
        perA = mode in ("per", "mixed") and R > 1
        pera = mode == "per" and R > 1
        d["forms"]["A"] = dict(per=perA, val=[[num() for _ in range(D)] for _ in range(R if perA else 1)])
        d["forms"]["a"] = dict(per=pera, val=[num() for _ in range(R if pera else 1)], omit=(mode == "default"))
        return d
    # defaults: omitting a matrix means K = D for its whole group
    omit_mat, omit_vec = set(), set()
    if mode == "default" and spec:
        name, sym = g.choice(spec)
        omit_mat.add(name)
        dims[sym] = D
        for n2, s2 in spec:
            if g.randint(0, 2) == 0:
                omit_vec.add(n2)
        d.update(dims)
    for name, sym in spec:
        K = dims[sym]
        if mode == "shared" or R == 1:
            pm, pv = False, False
        elif mode == "per":
            pm, pv = True, True
        else:
            pm, pv = bool(g.randint(0, 1)), bool(g.randint(0, 1))
        m = None if name in omit_mat else dict(per=pm, val=[[[num() for _ in range(D)] for _ in range(K)] for _ in range(R if pm else 1)])
        v = None if name in omit_vec else dict(per=pv, val=[[num() for _ in range(K)] for _ in range(R if pv else 1)])
        d["forms"][name] = dict(K=K, mat=m, vec=v)
    return d


def pre_check(workdir, tier):
    """translator tie (harness/moments_translate.py): the `_expectation_*` methods are re-translated from /repo's current
    source into Coq definitions gen_* and coq/gen/GenMomentsEq.v (gen_* = the hand-written model E_*, for every dimension)
    is re-checked against them; with the C03 theorems about E_* this makes the theorems hold for the source as it is now"""
    import os, shutil, subprocess
    from .. import moments_translate as mt
    d = os.path.join(workdir, "gen")
    os.makedirs(d, exist_ok=True)
    eq = os.path.join(gtlib.COQ, "gen", "GenMomentsEq.v")
    names = ["gen%s_eq" % m.replace("_expectation", "") for m in mt.METHODS] + ["dispatch_table_ok", "wrappers_ok"]
    try:
        txt, done = mt.translate(gtlib.REPO)
    except Exception as e:
        return dict(ok=False, theorems=names, error="translator failed closed: %s: %s" % (type(e).__name__, e))
    open(os.path.join(d, "GenMoments.v"), "w").write(txt)
    shutil.copy(eq, d)
    res = []
    for f in ("GenMoments.v", "GenMomentsEq.v"):
        r = subprocess.run(["coqc", "-R", gtlib.COQ, "GT", "-Q", ".", "", "-w", "none", f], cwd=d, capture_output=True, text=True, timeout=900)
        res.append(r)
        if r.returncode != 0:
            break
    ok = all(r.returncode == 0 for r in res) and len(res) == 2
    out = res[-1].stdout
    return dict(ok=ok, theorems=names, translated=done, closed=out.count("Closed under the global context"),
                error=("".join(r.stderr for r in res))[-1200:])


WARM = ["x", "xx'", "(Ax+a)'(Bx+b)", "xb'xx'"]


def add_history(g, d):
    """the integral is taken on an object with a HISTORY: earlier integrals on the same object (any memoised moment must
    still be right) and, for densities, an in-place update(idx, d) of some components in between.  d["o"] stays the
    object whose moments are integrated in the end."""
    o = d["o"]; R, D = o["R"], o["D"]
    if o["kind"] != "pdf" or R == 1 or g.randint(0, 2) == 0:
        d["history"] = dict(kind="warm", warm=[g.choice(WARM), d["key"]])
        return d
    n = g.randint(1, R)
    idx = list(range(R)); g.shuffle(idx); idx = idx[:n]
    before = C.gen_pdf(g, R, D, integer=True)
    for r in range(R):
        if r not in idx:
            before["Sig"][r] = o["Sig"][r]; before["mu"][r] = o["mu"][r]
    new = dict(R=n, D=D, Sig=[o["Sig"][r] for r in idx], mu=[o["mu"][r] for r in idx], diag=False)
    idx = [(r - R if g.randint(0, 2) == 0 else r) for r in idx]          # negative indices address from the end
    d["history"] = dict(kind="update", warm=[g.choice(WARM), d["key"]], before=before, new=new, idx=idx)
    return d


def gen_descs(g, tier):
    q = tier == "quick"
    out = []
    keys = list(KEYS)
    shapes = [(1, 1), (2, 3), (1, 4), (3, 2)] if q else [(1, 1), (2, 3), (1, 4), (3, 2), (2, 5), (1, 6), (3, 4), (2, 2), (3, 6)]
    modes = ["shared", "per", "mixed", "default"]
    i = 0
    for (R, D) in shapes:
        for key in keys:
            for mode in (modes if not q else [modes[(i + j) % 4] for j in range(2)]):
                i += 1
                out.append(C.J(gen_case(g, key, R, D, True, mode)))
            if key not in ("x", "xx'"):
                out.append(C.J(gen_case(g, key, R, min(D, 4), False, modes[i % 4])))
    # histories: every key once on an object that was integrated before and (densities) updated in place
    for key in keys:
        out.append(C.J(add_history(g, gen_case(g, key, 3, 2, True, "shared"))))
        out.append(C.J(add_history(g, gen_case(g, key, 2, 3, key in ("x", "xx'"), "per"))))
    for _ in range(0 if q else 1500):
        d = gen_case(g, g.choice(keys), g.randint(1, 3), g.randint(1, 6), bool(g.randint(0, 3)), g.choice(modes))
        out.append(C.J(add_history(g, d) if g.randint(0, 3) == 0 else d))
    return out


def search_descs(g, failing, tier):
    out = []
    for d in failing[:6]:
        for (R, D) in [(1, 1), (1, 2), (2, 2)]:
            for mode in ("shared", "per", "default"):
                out.append(C.J(gen_case(g, d["key"], R, D, True, mode)))
    return out


# ------------------------------------------------------------------ resolved affine forms per component (exact)
def resolved(d, name, r):
    """(A_r [K x D], a_r [K]) of form `name` for component r after the defaults, in Fractions"""
    D = d["o"]["D"]
    f = d["forms"][name]
    K = f["K"]
    if f["mat"] is None:
        A = [[Fr(int(i == j)) for j in range(D)] for i in range(K)]
    else:
        A = f["mat"]["val"][r if f["mat"]["per"] else 0]
    if f["vec"] is None:
        a = [Fr(0)] * K
    else:
        a = f["vec"]["val"][r if f["vec"]["per"] else 0]
    return A, a


def moments(d, r):
    o = d["o"]
    if o["kind"] == "pdf":
        return o["mu"][r], o["Sig"][r]
    S = lin.finv(o["Lam"][r])
    mu = [sum(S[i][j] * o["nu"][r][j] for j in range(o["D"])) for i in range(o["D"])]
    return mu, S


def wick(forms, mu, S):
    """E[prod_i (a_i . x + alpha_i)] under N(mu, S); forms = list of (a, alpha)"""
    if not forms:
        return Fr(1)
    (a, al), rest = forms[0], forms[1:]
    D = len(mu)
    m = sum(a[i] * mu[i] for i in range(D)) + al
    tot = m * wick(rest, mu, S)
    for j, (b, _) in enumerate(rest):
        c = sum(a[i] * S[i][k] * b[k] for i in range(D) for k in range(D))
        if c != 0:
            tot += c * wick(rest[:j] + rest[j + 1:], mu, S)
    return tot


def oracle(d, r):
    """exact expectation (nested lists of Fractions) of the integrand under component r"""
    key = d["key"]
    mu, S = moments(d, r)
    D = d["o"]["D"]
    e = lambda i: ([Fr(int(i == j)) for j in range(D)], Fr(0))
    row = lambda name, k: (lambda Aa: (Aa[0][k], Aa[1][k]))(resolved(d, name, r))
    if key == "x":
        return [wick([e(i)], mu, S) for i in range(D)]
    if key == "xx'":
        return [[wick([e(i), e(j)], mu, S) for j in range(D)] for i in range(D)]
    if key == "xb'xx'":
        fb = d["forms"]["b"]; b = fb["val"][r if fb["per"] else 0]
        return [[wick([e(i), (b, Fr(0)), e(j)], mu, S) for j in range(D)] for i in range(D)]
    if key == "x(A'x + a)x'":
        fA = d["forms"]["A"]; A = fA["val"][r if fA["per"] else 0]
        fa = d["forms"]["a"]; a = Fr(0) if fa.get("omit") else fa["val"][r if fa["per"] else 0]
        return [[wick([e(i), (A, a), e(j)], mu, S) for j in range(D)] for i in range(D)]
    K, L, M = d["K"], d["L"], d["M"]
    if key == "(Ax+a)":
        return [wick([row("A", k)], mu, S) for k in range(K)]
    if key == "(Ax+a)'(Bx+b)":
        return sum(wick([row("A", k), row("B", k)], mu, S) for k in range(K))
    if key == "(Ax+a)(Bx+b)'":
        return [[wick([row("A", k), row("B", l)], mu, S) for l in range(L)] for k in range(K)]
    if key == "(Ax+a)(Bx+b)'(Cx+c)":
        return [sum(wick([row("A", k), row("B", l), row("C", l)], mu, S) for l in range(L)) for k in range(K)]
    if key == "(Ax+a)'(Bx+b)(Cx+c)'":
        return [sum(wick([row("A", k), row("B", k), row("C", l)], mu, S) for k in range(K)) for l in range(L)]
    if key == "(Ax+a)'(Bx+b)(Cx+c)'(Dx+d)":
        return sum(wick([row("A", k), row("B", k), row("C", l), row("D", l)], mu, S) for k in range(K) for l in range(L))
    if key == "(Ax+a)(Bx+b)'(Cx+c)(Dx+d)'":
        return [[sum(wick([row("A", k), row("B", l), row("C", l), row("D", m)], mu, S) for l in range(L)) for m in range(M)] for k in range(K)]
    raise ValueError(key)


# ------------------------------------------------------------------ Coq term
def coq_obj(o):
    return C.coq_pdf(o) if o["kind"] == "pdf" else C.coq_measure(o)


def coq_cm(f, R):
    m = f["mat"]
    if m is None:
        return "MNone"
    K = f["K"]
    if m["per"]:
        return "(cm3 %d %d %s)" % (R, K, cb3(m["val"]))
    return "(cm2 %d %s)" % (K, cmat(m["val"][0]))


def coq_cv(f, R):
    v = f["vec"]
    if v is None:
        return "VNone"
    if v["per"]:
        return "(cv2 %d %s)" % (R, cmat(v["val"]))
    return "(cv1 %s)" % cvec(v["val"][0])


def dims_out(d):
    key, D, K, L, M = d["key"], d["o"]["D"], d["K"], d["L"], d["M"]
    return {"x": ("v", D), "xx'": ("m", D, D), "xb'xx'": ("m", D, D), "x(A'x + a)x'": ("m", D, D), "(Ax+a)": ("v", K),
            "(Ax+a)'(Bx+b)": ("s",), "(Ax+a)(Bx+b)'": ("m", K, L), "(Ax+a)(Bx+b)'(Cx+c)": ("v", K),
            "(Ax+a)'(Bx+b)(Cx+c)'": ("v", L), "(Ax+a)'(Bx+b)(Cx+c)'(Dx+d)": ("s",),
            "(Ax+a)(Bx+b)'(Cx+c)(Dx+d)'": ("m", K, M)}[key]


def coq_term(d):
    d = C.U(d)
    o = d["o"]; R = o["R"]; key = d["key"]
    u = coq_obj(o)
    h = d.get("history")
    if h and h["kind"] == "update":
        u = "(pdf_update %s %s %s)" % (gtlib.cints(h["idx"]), C.coq_pdf(h["before"]), C.coq_pdf(h["new"]))
    sh = dims_out(d)
    dump = {"v": "dV %d" % sh[1] if sh[0] == "v" else "", "m": "dM %d %d" % (sh[1], sh[2]) if sh[0] == "m" else "", "s": "dF"}[sh[0]]
    if key == "x":
        f = "int_x u"
    elif key == "xx'":
        f = "int_xxT u"
    elif key == "xb'xx'":
        fb = d["forms"]["b"]
        f = "int_xbxx u %d (lb2 %s)" % (R if fb["per"] else 1, cmat(fb["val"]))
    elif key == "x(A'x + a)x'":
        fA, fa = d["forms"]["A"], d["forms"]["a"]
        av = [Fr(0)] if fa.get("omit") else fa["val"]
        f = "int_cubic_outer u %d (lb2 %s) %d (lv %s)" % (R if fA["per"] else 1, cmat(fA["val"]),
                                                       R if (fa["per"] and not fa.get("omit")) else 1, cvec(av))
    else:
        args = " ".join("%s %s" % (coq_cm(d["forms"][n], R), coq_cv(d["forms"][n], R)) for n, _ in KEYS[key])
        f = "%s u %s" % (COQFN[key], args)
    return "let u := %s in obs_mass u ++ perR %d (fun r => %s (%s r))" % (u, R, dump, f)


# ------------------------------------------------------------------ implementation
def impl_kwargs(d):
    key = d["key"]
    kw = {}
    if key == "xb'xx'":
        fb = d["forms"]["b"]
        kw["b_vec"] = jarr(fb["val"] if fb["per"] else fb["val"][0])
    elif key == "x(A'x + a)x'":
        fA, fa = d["forms"]["A"], d["forms"]["a"]
        kw["A_mat"] = jarr([[v] for v in fA["val"]] if fA["per"] else [fA["val"][0]])
        if not fa.get("omit"):
            kw["a_vec"] = jarr([[v] for v in fa["val"]] if fa["per"] else [fa["val"][0]])
    elif isinstance(KEYS[key], list):
        for n, _ in KEYS[key]:
            f = d["forms"][n]
            if f["mat"] is not None:
                kw[n + "_mat"] = jarr(f["mat"]["val"] if f["mat"]["per"] else f["mat"]["val"][0])
            if f["vec"] is not None:
                kw[n.lower() + "_vec"] = jarr(f["vec"]["val"] if f["vec"]["per"] else f["vec"]["val"][0])
    return kw


def run_impl(d):
    import numpy as np
    d = C.U(d)
    o = d["o"]; R = o["R"]
    h = d.get("history")
    if h and h["kind"] == "update":
        obj = C.impl_pdf(h["before"])
    else:
        obj = C.impl_pdf(o) if o["kind"] == "pdf" else C.impl_measure(o)
    ob = Obs()
    fails = []
    if h:
        jnp = gtlib.impl()["jnp"]
        for wk in h["warm"]:                      # earlier integrals on the same object
            dw = dict(d, key=wk) if wk == d["key"] else None
            kw = impl_kwargs(d) if wk == d["key"] else ({"b_vec": jnp.ones(o["D"])} if wk == "xb'xx'" else {})
            obj.integrate(wk, **kw)
        if h["kind"] == "update":
            obj.update(jnp.array(h["idx"]), C.impl_pdf(h["new"]))
    mass = np.asarray(obj.integral(), dtype=float)
    ob.add("log_integral", obj.log_integral())
    val = np.asarray(obj.integrate(d["key"], **impl_kwargs(d)), dtype=float)
    exp = np.array([np.array(gtlib.fl(oracle(d, r))) for r in range(R)], dtype=float)
    site = "integrate(%r)" % d["key"]
    if val.shape != exp.shape:
        fails.append(dict(what="shape of the integral", site=site, key=None, got=list(val.shape), exp=list(exp.shape)))
        ob.add("E", val, exact=d["exact"])
        return ob, fails
    ratio = val / mass.reshape((R,) + (1,) * (val.ndim - 1))
    ob.add("E", ratio, exact=d["exact"])
    if d["exact"]:
        if not (np.array_equal(val, exp)):
            fails.append(dict(what="integral != mass * exact Gaussian moment (exact mode, bit for bit)", site=site, key=None,
                              relerr=gtlib.relerr(val, exp)))
    else:
        if not gtlib.close(ratio, exp):
            fails.append(dict(what="integral != mass * exact Gaussian moment", site=site, key=None, relerr=gtlib.relerr(ratio, exp)))
    return ob, fails
