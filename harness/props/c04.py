# C04: cached covariance, log-determinants, mean and log-partition always match; no result depends
# on which read-only queries were made before.  Random programs of public operations.
from fractions import Fraction as Fr
from .. import gtlib
from ..gtlib import cq, cvec, cmat, cb3, cbool, cseq, cints, cnats, jarr, Obs
from . import common as C, lin

PROP = "C04"
PROPS_FILE = "props/C04.v"
RULE = ("cases = seeded random programs (expression trees, depth <= 4 quick / <= 7 thorough, i.e. up to 8 chained public "
        "operations) over measures, densities, factors of all four kinds and conditionals: multiply/hadamard/* with "
        "update_full in {F,T}, slice, product, normalize, get_density, get_marginal, condition_on + condition_on_x, joint / "
        "marginal / conditional transformation, set_y, measure-or-density used as factor, interleaved with read-only "
        "warming queries (integrate, log_integral_light, get_density, evaluate_ln); every program is also run as its "
        "twin with the warming queries flipped; D <= 3, R <= 4 (exact rationals grow with every inversion); non-trivial = at "
        "least two operations; distinct = SHA1 of the program")
EXPLANATION = ("the program is printed as a Coq term over the model functions and evaluated at Qc, and interpreted against "
               "the real classes (a fresh object per node, warming queries applied before use); all public attributes of the "
               "final object are compared; oracle on the implementation: Sigma@Lambda=I, slogdet, mu=Sigma nu, lnZ closed "
               "form for the final and every intermediate object, and natural parameters / populated caches equal between the "
               "twins")
WARMS = ["integrate", "light", "density", "eval"]


# ------------------------------------------------------------------ program generation
# node = dict(op=..., args=[nodes], par={...}); leaves carry rational parameters. ty in M (measure), P (density)
def leaf_measure(g, R, D):
    return dict(op="measure", ty="M", R=R, D=D, par=C.gen_measure(g, R, D, diag=(g.randint(0, 5) == 0)))


def leaf_pdf(g, R, D):
    return dict(op="pdf", ty="P", R=R, D=D, par=lin.gen_pdfv(g, R, D, diag=(g.randint(0, 6) == 0)))


def warm(g, n, p=0.4):
    if g.r.random() < p:
        return dict(op="warm", ty=n["ty"], R=n["R"], D=n["D"], q=g.choice(WARMS), args=[n])
    return n


def gen_obj(g, depth, D, Rmax=4):
    """a measure- or density-valued program"""
    if depth == 0:
        R = g.randint(1, 2)
        return leaf_pdf(g, R, D) if g.randint(0, 1) else leaf_measure(g, R, D)
    kind = g.choice(["mul", "mul", "had", "slice", "product", "normalize", "density", "marginal", "cond_x", "joint", "marg_t", "post_x", "lik"])
    a = warm(g, gen_obj(g, depth - 1, D, Rmax))
    R, D = a["R"], a["D"]          # the operand decides the dimension from here on
    if kind in ("mul", "had"):
        fk = g.choice(["general", "onerank", "linear", "constant", "measure", "pdf"])
        if kind == "mul":
            Rf = g.randint(1, 2) if R * 2 <= Rmax else 1
            Rn = R * Rf
        else:
            Rf = g.choice([1, R]) if R > 1 else g.randint(1, 2)
            Rn = max(R, Rf)
        f = C.gen_factor(g, fk, Rf, D)
        if fk == "pdf":
            f["ctor"] = "Sigma"
        # negative rank-one weights where the operand's precision is known from the description (a leaf, possibly warmed;
        # a density leaf with a pending update is left alone): the product stays positive definite
        leaf = a["args"][0] if a["op"] == "warm" else a
        if fk == "onerank" and leaf["op"] in ("measure", "pdf") and not leaf["par"].get("upd"):
            C.neg_weights(g, leaf["par"], f)
        return dict(op=kind, ty="M", R=Rn, D=D, upd=bool(g.randint(0, 1)), star=(kind == "mul" and g.randint(0, 3) == 0),
                    f=f, fwarm=(g.choice(WARMS) if fk in ("measure", "pdf") and g.randint(0, 1) else None), args=[a])
    if kind == "slice":
        k = g.randint(1, min(3, R + 1))
        idx = [g.randint(-R, R - 1) for _ in range(k)]
        return dict(op="slice", ty=a["ty"], R=k, D=D, idx=idx, args=[a])
    if kind == "product":
        return dict(op="product", ty="M", R=1, D=D, args=[a])
    if kind == "normalize":
        if a["ty"] == "P":
            return a
        return dict(op="normalize", ty="M", R=R, D=D, args=[a])
    if kind == "density":
        return dict(op="density", ty="P", R=R, D=D, args=[a])
    # the remaining operations need a density
    p = a if a["ty"] == "P" else dict(op="density", ty="P", R=R, D=D, args=[a])
    if kind == "marginal":
        if D == 1:
            return p
        k = g.randint(1, D)
        idx = list(range(D)); g.shuffle(idx); idx = idx[:k]
        return dict(op="marginal", ty="P", R=R, D=k, idx=idx, args=[p])
    if kind == "cond_x":
        if D == 1:
            return p
        k = g.randint(1, D - 1)
        idx = list(range(D)); g.shuffle(idx); idx = idx[:k]
        N = 1 if R > 2 else g.randint(1, 2)
        return dict(op="cond_x", ty="P", R=R * N, D=D - k, idx=idx, xs=g.mat(N, k), args=[p])
    # operations with a linear conditional p(y|x), x of dimension D; keep R = 1 on one side
    Rc = 1 if R > 1 else g.randint(1, 2)
    cls = g.choice(lin.CLS)
    Dy = D if cls in ("ident", "identdiag") else g.randint(1, 2)
    c = lin.gen_cond(g, cls, Rc, Dy, D)
    Rn = lin.cond_R(c) * R
    if kind == "joint" and D + Dy <= 4:
        return dict(op="joint", ty="P", R=Rn, D=D + Dy, c=c, args=[p])
    if kind in ("marg_t", "joint"):
        return dict(op="marg_t", ty="P", R=Rn, D=Dy, c=c, args=[p])
    if kind == "post_x":       # conditional transformation, then conditioned on observed y
        N = 1 if Rn > 2 else g.randint(1, 2)
        return dict(op="post_x", ty="P", R=Rn * N, D=D, c=c, ys=g.mat(N, Dy), args=[p])
    if kind == "lik":          # prior times likelihood factors (set_y), product over observations
        Rc = lin.cond_R(c)
        N = g.randint(1, 2) if Rc == 1 else Rc
        return dict(op="lik", ty="M", R=R * N, D=D, c=c, ys=g.mat(N, Dy), upd=bool(g.randint(0, 1)), args=[p])
    raise ValueError(kind)


def flip_warm(n):
    """twin program: warming queries removed where present (same natural parameters expected)"""
    if n["op"] == "warm":
        return flip_warm(n["args"][0])
    m = dict(n)
    m["args"] = [flip_warm(a) for a in n.get("args", [])]
    if "fwarm" in m:
        m["fwarm"] = None
    return m


def nops(n):
    return (0 if n["op"] in ("measure", "pdf") else 1) + sum(nops(a) for a in n.get("args", []))


def gen_descs(g, tier):
    q = tier == "quick"
    out = []
    # systematic part: every factor kind x {multiply, hadamard} x update_full x operand cache state, R1, R2 > 1
    for fk in ["general", "onerank", "linear", "constant", "measure", "pdf"]:
        for op in ("mul", "had"):
            for upd in (True, False):
                for warmq in (None, "integrate", "density"):
                    if not upd and warmq == "density":
                        continue
                    D = g.randint(1, 3)
                    R1 = g.randint(2, 3)
                    Rf = 2 if op == "mul" else g.choice([1, R1])
                    a = leaf_measure(g, R1, D) if g.randint(0, 2) else leaf_pdf(g, R1, D)
                    if warmq:
                        a = dict(op="warm", ty=a["ty"], R=R1, D=D, q=warmq, args=[a])
                    f = C.gen_factor(g, fk, Rf, D)
                    if fk == "pdf":
                        f["ctor"] = "Sigma"
                    leaf = a["args"][0] if a["op"] == "warm" else a
                    if fk == "onerank" and not leaf["par"].get("upd"):
                        C.neg_weights(g, leaf["par"], f)         # a third of the rank-one factors get some negative weights
                    prog = dict(op=op, ty="M", R=(R1 * Rf if op == "mul" else max(R1, Rf)), D=D, upd=upd, star=False, f=f, fwarm=None, args=[a])
                    if g.randint(0, 1):
                        prog = dict(op="warm", ty="M", R=prog["R"], D=D, q="integrate", args=[prog])
                    out.append(C.J(dict(prog=prog, xs=g.mat(2, D))))
    # a diagonal density in dimension 40 with variances ~ 1e-8 / 1e8 (determinant outside the float range, ln det ordinary),
    # sliced and normalised: every exposed cache must still be the true quantity
    hd = lin.gen_scn(g, "ctor", R=2, D=40, diag=True, highdim=40)["p"]
    leaf = dict(op="pdf", ty="P", R=2, D=40, par=hd)
    out.append(C.J(dict(prog=dict(op="slice", ty="P", R=1, D=40, idx=[-1], args=[leaf]), xs=[[Fr(0)] * 40])))
    n = len(out) + (60 if q else 900)
    while len(out) < n:
        D = g.randint(1, 3)
        depth = g.randint(1, 4 if q else 7)
        prog = warm(g, gen_obj(g, depth, D), p=0.3)
        if nops(prog) < 1 or prog["R"] > 8:
            continue
        out.append(C.J(dict(prog=prog, xs=g.mat(2, prog["D"]))))
    return out


def search_descs(g, failing, tier):
    out = []
    for _ in range(40):
        D = g.randint(1, 2)
        prog = gen_obj(g, g.randint(1, 2), D)
        out.append(C.J(dict(prog=prog, xs=g.mat(2, prog["D"]))))
    return out


def hist(d):
    ops = []
    def walk(n):
        ops.append(n["op"]); [walk(a) for a in n.get("args", [])]
    walk(d["prog"])
    return dict(nops=nops(d["prog"]), top=d["prog"]["op"], D=d["prog"]["D"], R=d["prog"]["R"], warm=("warm" in ops))


def nontrivial(d):
    return nops(d["prog"]) >= 2


def scenario(d):
    ops = []
    def walk(n):
        ops.append(n["op"]); [walk(a) for a in n.get("args", [])]
    walk(d["prog"])
    return ">".join(ops)


# ------------------------------------------------------------------ Coq term
def coq_factor_node(f, fwarm):
    if f["kind"] in ("measure", "pdf"):
        base = C.coq_measure(f) if f["kind"] == "measure" else lin.coq_pdfv(f)
        if fwarm:
            base = coq_warm(fwarm, base)
        return "(factor_of_measure %s)" % base
    return C.coq_factor(f)


def coq_warm(q, t):
    if q == "integrate":
        return "(prepare %s)" % t
    if q == "light":
        return "(log_integral_light %s).1" % t
    if q == "density":
        return "(get_density %s).1" % t
    return t


def coq_prog(n):
    op = n["op"]
    if op == "measure":
        return C.coq_measure(n["par"])
    if op == "pdf":
        return lin.coq_pdfv(n["par"])
    a = coq_prog(n["args"][0])
    if op == "warm":
        return coq_warm(n["q"], a)
    if op in ("mul", "had"):
        fn = "multiply" if op == "mul" else "hadamard"
        upd = False if n.get("star") else n["upd"]
        return "(%s %s %s %s)" % (fn, cbool(upd), a, coq_factor_node(n["f"], n.get("fwarm")))
    if op == "slice":
        return "(uslice %s %s)" % (cints(n["idx"]), a)
    if op == "product":
        return "(uproduct %s)" % a
    if op == "normalize":
        return "(normalize %s)" % a
    if op == "density":
        return "(get_density %s).2" % a
    if op == "marginal":
        return "(get_marginal %s %s)" % (cnats(n["idx"]), a)
    if op == "cond_x":
        return "(condition_on_x (condition_on %s %s) (lxs %s))" % (cnats(n["idx"]), a, cmat(n["xs"]))
    c = lin.coq_cond(n["c"])
    if op == "joint":
        return "(affine_joint %s %s)" % (c, a)
    if op == "marg_t":
        return "(affine_marginal %s %s)" % (c, a)
    if op == "post_x":
        return "(condition_on_x (affine_conditional %s %s) (lxs %s))" % (c, a, cmat(n["ys"]))
    if op == "lik":
        return "(multiply %s %s (set_y true %s (lxs %s)))" % (cbool(n["upd"]), a, c, cmat(n["ys"]))
    raise ValueError(op)


def coq_term(d):
    d = C.U(d)
    return "obs_all %s %s" % (coq_prog(d["prog"]), cmat(d["xs"]))


# ------------------------------------------------------------------ interpretation on the implementation
def do_warm(q, o, D):
    import numpy as np
    if q == "integrate":
        o.integrate()
    elif q == "light":
        o.log_integral_light()
    elif q == "density":
        o.get_density()
    else:
        o.evaluate_ln(jarr([[Fr(0)] * D]))
    return o


def run_prog(n, fails, check=True):
    I = gtlib.impl()
    jnp = I["jnp"]
    op = n["op"]
    if op == "measure":
        return C.impl_measure(n["par"])
    if op == "pdf":
        return lin.impl_pdfv(n["par"])
    a = run_prog(n["args"][0], fails, check)
    site = op
    if op == "warm":
        return do_warm(n["q"], a, n["D"])
    if op in ("mul", "had"):
        f = n["f"]
        fo = lin.impl_pdfv(f) if f["kind"] == "pdf" else C.impl_factor(f)
        if n.get("fwarm"):
            do_warm(n["fwarm"], fo, n["D"])
        if op == "mul":
            r = (a * fo) if n.get("star") else a.multiply(fo, update_full=n["upd"])
        else:
            r = a.hadamard(fo, update_full=n["upd"])
        site = "%s[%s,upd=%s]" % (op, f["kind"], n["upd"])
    elif op == "slice":
        r = a.slice(jnp.array(n["idx"]))
    elif op == "product":
        r = a.product()
    elif op == "normalize":
        a.normalize(); r = a
    elif op == "density":
        r = a.get_density()
    elif op == "marginal":
        r = a.get_marginal(jnp.array(n["idx"]))
    elif op == "cond_x":
        cnd = a.condition_on(jnp.array(n["idx"]))
        if check:
            lin.cond_consistency(fails, cnd, "condition_on")
        r = cnd.condition_on_x(jarr(n["xs"]))
    else:
        c, ckw = lin.impl_cond(n["c"])
        nn = n["c"]["cls"] == "nn"
        site = "%s[%s]" % (op, n["c"]["cls"])
        if op == "joint":
            r = c.affine_joint_transformation(a, **ckw)
        elif op == "marg_t":
            r = c.affine_marginal_transformation(a, **ckw)
        elif op == "post_x":
            post = c.affine_conditional_transformation(a, **ckw)
            if check:
                lin.cond_consistency(fails, post, site + ".affine_conditional_transformation")
            r = post.condition_on_x(jarr(n["ys"]))
        elif op == "lik":
            r = a.multiply(c.set_y(jarr(n["ys"]), **ckw), update_full=n["upd"])
        else:
            raise ValueError(op)
    if check:
        lin.consistency(fails, r, site, pdf=(n["ty"] == "P"))
    return r


def run_impl(d):
    import numpy as np
    d = C.U(d)
    ob = Obs()
    fails = []
    r = run_prog(d["prog"], fails)
    lin.obs_all(ob, r, d["xs"])
    # twin without the warming queries: identical natural parameters, equal caches where both populated
    tf = []
    t = run_prog(flip_warm(d["prog"]), tf, check=False)
    for nm in ("Lambda", "nu", "ln_beta"):
        lin.chk(fails, ["C04"], "twin (queries removed) differs in %s" % nm, "program", getattr(r, nm), getattr(t, nm))
    for nm in ("Sigma", "ln_det_Sigma", "ln_det_Lambda", "mu", "lnZ"):
        x, y = getattr(r, nm, None), getattr(t, nm, None)
        if x is not None and y is not None:
            lin.chk(fails, ["C04"], "twin (queries removed) differs in cached %s" % nm, "program", x, y)
    lin.chk(fails, ["C04"], "twin differs in evaluate_ln", "program", r.evaluate_ln(jarr(d["xs"])), t.evaluate_ln(jarr(d["xs"])))
    return ob, [f for f in fails if "C04" in f["props"]]
