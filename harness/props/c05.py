# C05: marginals and linear images have the law of the sub-vector / of Wx+b
from . import lin, common as C
PROP = "C05"
PROPS_FILE = ["props/C05.v", "props/GI.v"]
TRUSTED_EXTRA = ["props/GI.v (the Gaussian-integral specification as a theorem about iterated improper Riemann integrals, at Coq's real numbers: stdlib Reals + Coquelicot + base/RField.v) depends on the standard-library axioms ClassicalDedekindReals.sig_not_dec, sig_forall_dec, FunctionalExtensionality.functional_extensionality_dep, Classical_Prop.classic, Epsilon.epsilon_statement (choiceType structure of R); the theorems of props/C05.v themselves (every real field) stay closed under the global context"]
RULE = ('cases = get_marginal for every non-empty index list without repetition in random order (all subsets for D<=3 quick / D<=4 thorough, random for larger D, all coordinates included; in a quarter of the cases some coordinates addressed from the end by negative indices), full and diagonal densities, R in 1..4; get_density_of_linear_sum for integer full-row-rank W with Dsum<=D, b present or omitted' "; rational parameters (small integers over denominators 1,2,4; SPD = B B' + d I, cond <= 1e3), random constructor "
        "argument combination; non-trivial = more than one scalar dimension/component involved; distinct = SHA1 of the input description")
EXPLANATION = ("model get_marginal / linear_sum (Pdf.v) at Qc vs implementation; oracle: independent normal log-density of mu[idx], Sigma[idx,idx] resp. W mu + b, W Sigma W' (numpy)")
coq_term = lin.coq_term
alt_terms = lin.alt_terms
run_impl = lin.filtered(PROP)
hist, nontrivial, scenario = lin.hist, lin.nontrivial, lin.scenario


def gen_descs(g, tier):
    q = tier == "quick"
    out = []
    import itertools
    # systematic: both classes x every subset (random order) + ALL coordinates in reversed and rotated order
    for D in (1, 2, 3) if q else (1, 2, 3, 4):
        for diag in (False, True):
            for k in range(1, D + 1):
                for sub in itertools.combinations(range(D), k):
                    idx = list(sub); g.shuffle(idx)
                    out.append(lin.gen_scn(g, "marginal", R=g.randint(1, 4), D=D, idx=idx, diag=diag))
            if D > 1:
                for idx in {tuple(reversed(range(D))), tuple(list(range(1, D)) + [0])}:
                    out.append(lin.gen_scn(g, "marginal", R=g.randint(1, 3), D=D, idx=list(idx), diag=diag))
    for _ in range(12 if q else 300):
        D = g.randint(4, 6)
        out.append(lin.gen_scn(g, "marginal", R=g.randint(1, 3), D=D, diag=bool(g.randint(0, 3) == 0)))
    for _ in range(30 if q else 500):
        out.append(lin.gen_scn(g, "linsum", R=g.randint(1, 4), D=g.randint(1, 4 if q else 5)))
    return [C.J(d) for d in out]


def search_descs(g, failing, tier):
    # neighbours of the disagreeing cases: same scenario and class, the smallest shapes of every layout
    out = []
    for d in failing[:8]:
        kw = dict(cls=d["c"]["cls"]) if "c" in d else {}
        for (Rc, Rx) in [(1, 1), (1, 2), (2, 1)]:
            for (Dy, Dx) in [(1, 1), (1, 2), (2, 1)]:
                try:
                    out.append(C.J(lin.gen_scn(g, d["scn"], R=Rx, D=max(Dx, 2), Rc=Rc, Rx=Rx, Dy=Dy, Dx=Dx, **kw)))
                except Exception:
                    pass
    return out
