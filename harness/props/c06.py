# C06: conditioning on coordinates satisfies p(x_a | x_b) p(x_b) = p(x)
from . import lin, common as C
PROP = "C06"
PROPS_FILE = "props/C06.v"
RULE = ('cases = condition_on for every proper non-empty subset b (random order) of D<=4 coordinates and random subsets for D<=6, condition_on_explicit with the complement in random order and (half of them) some coordinates addressed from the end (negative indices); R in 1..4; 3 evaluation points' "; rational parameters (small integers over denominators 1,2,4; SPD = B B' + d I, cond <= 1e3), random constructor "
        "argument combination; non-trivial = more than one scalar dimension/component involved; distinct = SHA1 of the input description")
EXPLANATION = ('model condition_on(_explicit) + condition_on_x (Pdf.v) at Qc vs implementation: M, b, Sigma, Lambda, ln_det_Sigma of the conditional and cond(x_b).evaluate_ln(x_a) (all R*N x N entries); oracle: cond(x_b)(x_a) + marginal(x_b) = independent joint normal log-density')
coq_term = lin.coq_term
alt_terms = lin.alt_terms
run_impl = lin.filtered(PROP)
hist, nontrivial, scenario = lin.hist, lin.nontrivial, lin.scenario


def gen_descs(g, tier):
    q = tier == "quick"
    out = []
    import itertools
    for D in (2, 3, 4) if q else (2, 3, 4, 5):
        for k in range(1, D):
            for sub in itertools.combinations(range(D), k):
                idx = list(sub); g.shuffle(idx)
                out.append(lin.gen_scn(g, "condition_on", R=g.randint(1, 4), D=D, idx=idx, explicit=bool(g.randint(0, 2) == 0)))
    for _ in range(10 if q else 300):
        out.append(lin.gen_scn(g, "condition_on", R=g.randint(1, 3), D=g.randint(4, 6), explicit=bool(g.randint(0, 1))))
    return [C.J(d) for d in out]


def search_descs(g, failing, tier):
    # neighbours of the disagreeing cases: same scenario and class, the smallest shapes of every layout
    out = []
    for d in failing[:8]:
        kw = dict(cls=d["c"]["cls"]) if "c" in d else {}
        for (Rc, Rx) in [(1, 1), (1, 2), (2, 1)]:
            for (Dy, Dx) in [(1, 1), (1, 2), (2, 1)]:
                try:
                    out.append(C.J(lin.gen_scn(g, d["scn"], R=Rx, D=max(Dx, 2), Rc=Rc, Rx=Rx, Dy=Dy, Dx=Dx, **kw)))
                except Exception:
                    pass
    return out
