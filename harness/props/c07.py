# C07: joint transformation is the chain rule p(x,y) = p(y|x) p(x)
from . import lin, common as C
PROP = "C07"
PROPS_FILE = "props/C07.v"
RULE = ('cases = affine_joint_transformation for every conditional class {full, diag, ident, identdiag, nn} x batch layout {(1,1),(1,n),(n,1)} x dimension regime plus seeded random shapes' "; rational parameters (small integers over denominators 1,2,4; SPD = B B' + d I, cond <= 1e3), random constructor "
        "argument combination; non-trivial = more than one scalar dimension/component involved; distinct = SHA1 of the input description")
EXPLANATION = ("model affine_joint (Cond.v) at Qc vs implementation; oracle: independent normal log-density of the exact joint moments (x first) and the chain rule against cond(x).evaluate_ln(y) + p_x.evaluate_ln(x); Sigma@Lambda, slogdet of the joint")
coq_term = lin.coq_term
alt_terms = lin.alt_terms
run_impl = lin.filtered(PROP)
hist, nontrivial, scenario = lin.hist, lin.nontrivial, lin.scenario


def gen_descs(g, tier):
    q = tier == "quick"
    out = []
    for (cls, Rc, Rx, Dy, Dx) in lin.shapes_cond(g, tier, 40 if q else 600):
        out.append(lin.gen_scn(g, "joint", cls=cls, Rc=Rc, Rx=Rx, Dy=Dy, Dx=Dx))
    return [C.J(d) for d in out]


def search_descs(g, failing, tier):
    # neighbours of the disagreeing cases: same scenario and class, the smallest shapes of every layout
    out = []
    for d in failing[:8]:
        kw = dict(cls=d["c"]["cls"]) if "c" in d else {}
        for (Rc, Rx) in [(1, 1), (1, 2), (2, 1)]:
            for (Dy, Dx) in [(1, 1), (1, 2), (2, 1)]:
                try:
                    out.append(C.J(lin.gen_scn(g, d["scn"], R=Rx, D=max(Dx, 2), Rc=Rc, Rx=Rx, Dy=Dy, Dx=Dx, **kw)))
                except Exception:
                    pass
    return out
