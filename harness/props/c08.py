# C08: marginal transformation returns p(y) = integral of p(y|x) p(x) dx
from . import lin, common as C
PROP = "C08"
PROPS_FILE = ["props/C08.v", "props/GI2.v"]
TRUSTED_EXTRA = ["props/GI2.v (C08 / C09 / C11 as statements about iterated improper Riemann integrals, at Coq's real numbers: stdlib Reals + Coquelicot + base/RField.v) depends on the standard-library axioms ClassicalDedekindReals.sig_not_dec, sig_forall_dec, FunctionalExtensionality.functional_extensionality_dep, Classical_Prop.classic, Epsilon.epsilon_statement; the theorems of props/C08.v (every real field) stay closed under the global context"]
RULE = ('cases = affine_marginal_transformation for every conditional class {full, diag, ident, identdiag, nn} x batch layout {(1,1),(1,n),(n,1)} x dimension regime plus seeded random shapes' "; rational parameters (small integers over denominators 1,2,4; SPD = B B' + d I, cond <= 1e3), random constructor "
        "argument combination; non-trivial = more than one scalar dimension/component involved; distinct = SHA1 of the input description")
EXPLANATION = ("model affine_marginal (Cond.v) at Qc vs implementation; oracle: independent normal log-density of (M mu + b, Sigma_y + M Sigma_x M'), which is also the y-block of the exact joint moments")
coq_term = lin.coq_term
alt_terms = lin.alt_terms
run_impl = lin.filtered(PROP)
hist, nontrivial, scenario = lin.hist, lin.nontrivial, lin.scenario


def gen_descs(g, tier):
    q = tier == "quick"
    out = []
    for i, (cls, Rc, Rx, Dy, Dx) in enumerate(lin.shapes_cond(g, tier, 40 if q else 600)):
        # the fixed design (first 45 shapes) with a full AND a diagonal p(x) object, the random shapes alternate
        for pdiag in ((False, True) if i < 45 else (bool(i % 2),)):
            out.append(lin.gen_scn(g, "marg_t", cls=cls, Rc=Rc, Rx=Rx, Dy=Dy, Dx=Dx, pdiag=pdiag))
    return [C.J(d) for d in out]


def search_descs(g, failing, tier):
    # neighbours of the disagreeing cases: same scenario and class, the smallest shapes of every layout
    out = []
    for d in failing[:8]:
        kw = dict(cls=d["c"]["cls"]) if "c" in d else {}
        for (Rc, Rx) in [(1, 1), (1, 2), (2, 1)]:
            for (Dy, Dx) in [(1, 1), (1, 2), (2, 1)]:
                try:
                    out.append(C.J(lin.gen_scn(g, d["scn"], R=Rx, D=max(Dx, 2), Rc=Rc, Rx=Rx, Dy=Dy, Dx=Dx, **kw)))
                except Exception:
                    pass
    return out
