# C09: conditional transformation is Bayes' rule and is invertible
from . import lin, common as C
PROP = "C09"
PROPS_FILE = ["props/C09.v", "props/GI2.v"]
TRUSTED_EXTRA = ["props/GI2.v (C08 / C09 / C11 as statements about iterated improper Riemann integrals, at Coq's real numbers: stdlib Reals + Coquelicot + base/RField.v) depends on the standard-library axioms ClassicalDedekindReals.sig_not_dec, sig_forall_dec, FunctionalExtensionality.functional_extensionality_dep, Classical_Prop.classic, Epsilon.epsilon_statement; the theorems of props/C09.v (every real field) stay closed under the global context"]
RULE = ('cases = affine_conditional_transformation for every conditional class x batch layout {(1,1),(1,n),(n,1)} x dimension regime plus seeded random shapes' "; rational parameters (small integers over denominators 1,2,4; SPD = B B' + d I, cond <= 1e3), random constructor "
        "argument combination; non-trivial = more than one scalar dimension/component involved; distinct = SHA1 of the input description")
EXPLANATION = ('model affine_conditional (Cond.v) at Qc vs implementation (M, b, Sigma, Lambda, ln_det_Sigma of p(x|y)); oracle: post(y).evaluate_ln(x) + independent ln p(y) = independent joint log-density; round trips (transform back with p(y)) compared with the original conditional and prior component by component')
coq_term = lin.coq_term
alt_terms = lin.alt_terms
run_impl = lin.filtered(PROP)
hist, nontrivial, scenario = lin.hist, lin.nontrivial, lin.scenario


def gen_descs(g, tier):
    q = tier == "quick"
    out = []
    for (cls, Rc, Rx, Dy, Dx) in lin.shapes_cond(g, tier, 30 if q else 600):
        out.append(lin.gen_scn(g, "cond_t", cls=cls, Rc=Rc, Rx=Rx, Dy=Dy, Dx=Dx))
    return [C.J(d) for d in out]


def search_descs(g, failing, tier):
    # neighbours of the disagreeing cases: same scenario and class, the smallest shapes of every layout
    out = []
    for d in failing[:8]:
        kw = dict(cls=d["c"]["cls"]) if "c" in d else {}
        for (Rc, Rx) in [(1, 1), (1, 2), (2, 1)]:
            for (Dy, Dx) in [(1, 1), (1, 2), (2, 1)]:
                try:
                    out.append(C.J(lin.gen_scn(g, d["scn"], R=Rx, D=max(Dx, 2), Rc=Rc, Rx=Rx, Dy=Dy, Dx=Dx, **kw)))
                except Exception:
                    pass
    return out
