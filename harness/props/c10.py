# C10: set_y returns the likelihood x -> p(y|x) including its normaliser
from . import lin, common as C
PROP = "C10"
PROPS_FILE = "props/C10.v"
RULE = ('cases = set_y for every conditional class, Dx,Dy in 1..3 (Dx != Dy included), R=1 with N in 1..4 observations and R=N>1' "; rational parameters (small integers over denominators 1,2,4; SPD = B B' + d I, cond <= 1e3), random constructor "
        "argument combination; non-trivial = more than one scalar dimension/component involved; distinct = SHA1 of the input description")
EXPLANATION = ('faithful model set_y (Cond.v, normaliser with Dx as in the code) at Qc vs implementation (Lambda, nu, ln_beta, evaluate_ln); repaired variant (Dy) accepted instead where it agrees; oracle: independent N(y; Mx+b, Sigma); batch well-formedness; product()/slice() of the returned factor')
coq_term = lin.coq_term
alt_terms = lin.alt_terms
run_impl = lin.filtered(PROP)
hist, nontrivial, scenario = lin.hist, lin.nontrivial, lin.scenario


def gen_descs(g, tier):
    q = tier == "quick"
    out = []
    for cls in lin.CLS:
        for (Dy, Dx) in [(1, 1), (1, 2), (2, 1), (2, 2), (2, 3), (3, 2)]:
            for (Rc, N) in [(1, 1), (1, 3), (2, 2), (3, 3)]:
                if q and cls in ("diag", "identdiag") and (Dy, Dx) in [(2, 3), (3, 2)]:
                    continue
                out.append(lin.gen_scn(g, "set_y", cls=cls, Rc=Rc, N=N, Dy=Dy, Dx=Dx))
    for _ in range(0 if q else 500):
        Rc = g.choice([1, 1, 2, 3, 4])
        out.append(lin.gen_scn(g, "set_y", cls=g.choice(lin.CLS), Rc=Rc, N=g.randint(1, 5), Dy=g.randint(1, 4), Dx=g.randint(1, 4)))
    return [C.J(d) for d in out]


def search_descs(g, failing, tier):
    # neighbours of the disagreeing cases: same scenario and class, the smallest shapes of every layout
    out = []
    for d in failing[:8]:
        kw = dict(cls=d["c"]["cls"]) if "c" in d else {}
        for (Rc, Rx) in [(1, 1), (1, 2), (2, 1)]:
            for (Dy, Dx) in [(1, 1), (1, 2), (2, 1)]:
                try:
                    out.append(C.J(lin.gen_scn(g, d["scn"], R=Rx, D=max(Dx, 2), Rc=Rc, Rx=Rx, Dy=Dy, Dx=Dx, **kw)))
                except Exception:
                    pass
    return out
