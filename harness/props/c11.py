# C11: Bayesian updating is path independent (posterior and evidence); Kalman filtering equals
# conditioning the dense joint.
import math
from fractions import Fraction as Fr
from .. import gtlib
from ..gtlib import cq, cvec, cmat, cb3, cbool, cseq, cints, cnats, jarr, Obs, HL2P
from . import common as C, lin

PROP = "C11"
WIDEN_MAX = 60          # extra thorough-generator cases when the anchored sources have drifted (harness/drift.py)
PROPS_FILE = ["props/C11.v", "props/GI2.v", "props/GI5.v"]
TRUSTED_EXTRA = ["props/GI2.v (C08 / C09 / C11 as statements about iterated improper Riemann integrals, at Coq's real numbers: stdlib Reals + Coquelicot + base/RField.v) depends on the standard-library axioms ClassicalDedekindReals.sig_not_dec, sig_forall_dec, FunctionalExtensionality.functional_extensionality_dep, Classical_Prop.classic, Epsilon.epsilon_statement; the theorems of props/C11.v (every real field) stay closed under the global context"]
IMPORTS = "C11_kalman"
RULE = ("cases = static: Gaussian prior (Dw in 1..3) and N in 1..4 (quick) / 1..6 (thorough) linear-Gaussian observations with "
        "individual (M_i, b_i, Sigma_i), Dy in 1..3 with Dy != Dw included, a random permutation of the update order, the joint route "
        "conditioning alternately by condition_on(Dw..Dw+Dy-1) and condition_on_explicit(-Dy..-1, 0..Dw-1), the factor route formed by "
        "multiply / * / hadamard with and without update_full; state "
        "space: random (A, b, Q, C, d, R), Dz, Dx in 1..2, T in 1..4 (quick) / 1..12 (thorough); non-trivial = N >= 2 or "
        "T >= 2; distinct = SHA1 of the input")
EXPLANATION = ("model: the three routes (sequential conditional transformation + condition_on_x, joint transformation + "
               "condition_on, prior x product of set_y factors normalised) composed from Cond.v / Pdf.v / Factor.v at Qc vs the "
               "implementation (mu, Sigma of every route, log-evidence); oracle: routes agree with each other and with the exact "
               "posterior / log marginal likelihood computed from the dense joint in numpy; Kalman filter (predict = marginal "
               "transformation, update = conditional transformation + condition_on_x) vs conditioning the dense joint over all "
               "states and observations built independently")
SETY_KEY = lin.SETY_KEY


def gen_static(g, Dw, Dy, N):
    prior = lin.gen_pdfv(g, 1, Dw, ctor="Sigma")
    cls = g.choice(["full", "full", "diag"])
    ctor = g.choice(["Sigma", "Lambda", "all", "Sigma+Lambda"])
    obs = []
    for _ in range(N):
        c = lin.gen_cond(g, cls, 1, Dy, Dw, ctor=ctor)
        if c["b"] is None:
            c["b"] = [[Fr(0)] * Dy]
        obs.append(dict(c=c, y=g.vec(Dy)))
    perm = list(range(N)); g.shuffle(perm)
    # how the prior is combined with the product of the likelihood factors (route c): every public way of forming the product
    return dict(scn="static", prior=prior, obs=obs, perm=perm, Dw=Dw, Dy=Dy, cls=cls, ctor=ctor,
                prod=g.choice(["multiply", "mul", "hadamard", "hadamard_full", "multiply_full"]))


def gen_batched(g, R, N, Dw, Dy):
    """a bank of R priors updated with N observed values of one observation model in ONE call: R*N posteriors, r*N+n"""
    c = lin.gen_cond(g, g.choice(["full", "diag"]), 1, Dy, Dw, ctor=g.choice(["Sigma", "Lambda", "Sigma+Lambda"]))
    if c["b"] is None:
        c["b"] = [[Fr(0)] * Dy]
    return dict(scn="batched", prior=lin.gen_pdfv(g, R, Dw, ctor="Sigma"), c=c, ys=g.mat(N, Dy), xs=g.mat(2, Dw), R=R, N=N, Dw=Dw, Dy=Dy)


def gen_kalman(g, Dz, Dx, T):
    return dict(scn="kalman", Dz=Dz, Dx=Dx, T=T, prior=lin.gen_pdfv(g, 1, Dz, ctor="Sigma"),
                state=dict(lin.gen_cond(g, g.choice(["full", "diag"]), 1, Dz, Dz, ctor=g.choice(["Sigma", "Lambda", "Sigma+Lambda"])), b=[g.vec(Dz)]),
                emis=dict(lin.gen_cond(g, g.choice(["full", "diag"]), 1, Dx, Dz, ctor=g.choice(["Sigma", "Lambda", "Sigma+Lambda"])), b=[g.vec(Dx)]),
                ys=g.mat(T, Dx), traj=g.mat(T + 1, Dz))


def gen_descs(g, tier):
    q = tier == "quick"
    out = []
    for (Dw, Dy) in [(1, 1), (2, 1), (1, 2), (2, 2), (3, 2), (2, 3)]:
        for N in ([1, 2, 3] if q else [1, 2, 3, 4, 6]):
            if q and N == 3 and Dw + Dy > 4:
                continue
            out.append(C.J(gen_static(g, Dw, Dy, N)))
    for (R, N, Dw, Dy) in [(2, 2, 1, 1), (3, 2, 2, 1), (2, 3, 2, 2)] + ([] if q else [(1, 3, 2, 2), (3, 1, 1, 2), (4, 3, 3, 2)]):
        out.append(C.J(gen_batched(g, R, N, Dw, Dy)))
    for (Dz, Dx) in [(1, 1), (2, 1), (1, 2), (2, 2)]:
        for T in ([1, 3] if q else [1, 2, 4, 8, 12]):
            out.append(C.J(gen_kalman(g, Dz, Dx, T)))
    for _ in range(0 if q else 300):
        k = g.randint(0, 3)
        if k == 0:
            out.append(C.J(gen_batched(g, g.randint(1, 4), g.randint(1, 4), g.randint(1, 3), g.randint(1, 3))))
        elif k == 1:
            out.append(C.J(gen_static(g, g.randint(1, 3), g.randint(1, 3), g.randint(1, 6))))
        else:
            out.append(C.J(gen_kalman(g, g.randint(1, 2), g.randint(1, 2), g.randint(1, 12))))
    return out


def search_descs(g, failing, tier):
    return [C.J(gen_static(g, a, b, n)) for (a, b, n) in [(1, 1, 1), (1, 1, 2), (2, 1, 2), (1, 2, 2)]] + \
           [C.J(gen_kalman(g, 1, 1, 2))]


hist = lambda d: dict(scn=d["scn"], cls=d.get("cls"), ctor=d.get("ctor"), N=len(d.get("obs", [])), T=d.get("T"), Dw=d.get("Dw", d.get("Dz")), Dy=d.get("Dy", d.get("Dx")))
nontrivial = lambda d: len(d.get("obs", [])) >= 2 or (d.get("T") or 0) >= 2 or d.get("R", 1) * d.get("N", 1) >= 2
scenario = lambda d: d["scn"]


def batch_cond(obs):
    """the N observation models as one batched conditional (R = N)"""
    c0 = obs[0]["c"]
    return dict(cls=c0["cls"], R=len(obs), Dy=c0["Dy"], Dx=c0["Dx"], ctor=c0["ctor"],
                M=[o["c"]["M"][0] for o in obs], b=[o["c"]["b"][0] for o in obs], Sig=[o["c"]["Sig"][0] for o in obs])


# ------------------------------------------------------------------ Coq term
def coq_term(d):
    d = C.U(d)
    if d["scn"] == "static":
        p = lin.coq_pdfv(d["prior"])
        obs = d["obs"]; Dw, Dy = d["Dw"], d["Dy"]
        def seq(order):
            t = p; ev = []
            for i in order:
                c = lin.coq_cond(obs[i]["c"]); y = cmat([obs[i]["y"]])
                ev.append("dL 1 (ueval (affine_marginal %s %s) ^~ (lv %s))" % (c, t, cvec(obs[i]["y"])))
                t = "(condition_on_x (affine_conditional %s %s) (lxs %s))" % (c, t, y)
            return t, ev
        t1, ev1 = seq(range(len(obs)))
        t2, _ = seq(d["perm"])
        # route b: joint then condition on the y coordinates
        t3 = p
        for o in obs:
            c = lin.coq_cond(o["c"])
            t3 = "(condition_on_x (condition_on %s (affine_joint %s %s)) (lxs %s))" % (
                cnats(range(Dw, Dw + Dy)), c, t3, cmat([o["y"]]))
        # route c: prior times the product of the likelihood factors, normalised; its log-integral is the evidence
        bc = lin.coq_cond(batch_cond(obs)); ys = cmat([o["y"] for o in obs])
        lik = "(fproduct (set_y true %s (lxs %s)))" % (bc, ys)
        t4 = "(multiply false %s %s)" % (p, lik)
        obsP = lambda t: "obs_ucore %s ++ obs_ucache %s" % (t, t)
        return ("%s ++ %s ++ %s ++ (let m := %s in dL 1 (log_integral m).2 ++ (let g := (get_density m).2 in %s)) ++ %s"
                % (obsP(t1), obsP(t2), obsP(t3), t4, obsP("g"), " ++ ".join(ev1)))
    if d["scn"] == "batched":
        R, N = d["R"], d["N"]
        return ("let p := %s in let c := %s in let ys := lxs %s in "
                "(let post := condition_on_x (affine_conditional c p) ys in obs_ucore post ++ obs_ucache post ++ obs_ueval post %s) "
                "++ obs_ueval (affine_marginal c p) %s "
                "++ (let m := multiply false p (set_y true c ys) in dL %d (log_integral m).2 ++ (let g := (get_density m).2 in obs_ucore g ++ obs_ucache g))"
                % (lin.coq_pdfv(d["prior"]), lin.coq_cond(d["c"]), cmat(d["ys"]), cmat(d["xs"]), cmat(d["ys"]), R * N))
    # kalman
    st = lin.coq_cond(d["state"]); em = lin.coq_cond(d["emis"])
    t = lin.coq_pdfv(d["prior"])
    parts = []
    for y in d["ys"]:
        pred = "(affine_marginal %s %s)" % (st, t)
        parts.append("dL 1 (ueval (affine_marginal %s %s) ^~ (lv %s))" % (em, pred, cvec(y)))
        t = "(condition_on_x (affine_conditional %s %s) (lxs %s))" % (em, pred, cmat([y]))
    traj = d.get("traj") or [[Fr(0)] * d["Dz"]] * (d["T"] + 1)
    steps = cseq(["KStep %s %s (lv %s)" % (st, em, cvec(y)) for y in d["ys"]])
    p0 = lin.coq_pdfv(d["prior"])
    x0 = "(lv %s)" % cvec(traj[0]); xs = "(lxs %s)" % cmat(traj[1:])
    # the same filter through the definitions the all-T theorem is about (proofs/C11_kalman.v): evidence, filtered
    # density at the last state, full joint log-density of the trajectory and the sum of the backward kernels
    kal = ("(let ss := %s in let p0 := %s in dumpL (kevidence ss p0) ++ dumpL (ueval (kfilter ss p0) 0%%N (last %s %s)) "
           "++ dumpL (kjoint ss p0 %s %s) ++ dumpL (kback_sum (kback ss p0) %s %s))" % (steps, p0, x0, xs, x0, xs, x0, xs))
    return "(let f := %s in obs_ucore f ++ obs_ucache f) ++ %s ++ %s" % (t, " ++ ".join(parts), kal)


def alt_terms(d):
    d2 = C.U(d)
    if d2["scn"] not in ("static", "batched"):
        return []
    return [coq_term(d).replace("set_y true", "set_y false")]


# ------------------------------------------------------------------ implementation + oracles
def obsP(ob, o, tag):
    C.obs_ucore(ob, o, tag); C.obs_ucache(ob, o, tag)


def run_impl(d):
    import numpy as np
    d = C.U(d)
    I = gtlib.impl(); jnp = I["jnp"]; cm = I["conditional"]
    ob = Obs(); fails = []
    if d["scn"] == "static":
        obs = d["obs"]; Dw, Dy = d["Dw"], d["Dy"]; N = len(obs)
        prior = lin.impl_pdfv(d["prior"])
        conds = [lin.impl_cond(o["c"])[0] for o in obs]
        def seq(order):
            p = lin.impl_pdfv(d["prior"]); ev = []
            for i in order:
                y = jarr([obs[i]["y"]])
                ev.append(np.asarray(conds[i].affine_marginal_transformation(p).evaluate_ln(y)).reshape(-1))
                p = conds[i].affine_conditional_transformation(p).condition_on_x(y)
            return p, ev
        p1, ev1 = seq(range(N)); p2, _ = seq(d["perm"])
        p3 = lin.impl_pdfv(d["prior"])
        for i, o in enumerate(obs):
            j3 = conds[i].affine_joint_transformation(p3)
            # the observed block addressed as Dw..Dw+Dy-1 (condition_on) or as the trailing coordinates -Dy..-1 (condition_on_explicit)
            c3 = j3.condition_on(jnp.arange(Dw, Dw + Dy)) if i % 2 == 0 else j3.condition_on_explicit(jnp.arange(-Dy, 0), jnp.arange(Dw))
            p3 = c3.condition_on_x(jarr([o["y"]]))
        bc, _ = lin.impl_cond(batch_cond(obs))
        lik = bc.set_y(jarr([o["y"] for o in obs])).product()
        pr = lin.impl_pdfv(d["prior"]); mode = d.get("prod", "multiply")
        m = {"multiply": lambda: pr.multiply(lik), "mul": lambda: pr * lik, "hadamard": lambda: pr.hadamard(lik),
             "hadamard_full": lambda: pr.hadamard(lik, update_full=True), "multiply_full": lambda: pr.multiply(lik, update_full=True)}[mode]()
        logev = np.asarray(m.log_integral()); p4 = m.get_density()
        obsP(ob, p1, "seq."); obsP(ob, p2, "perm."); obsP(ob, p3, "joint."); ob.add("log_evidence", logev); obsP(ob, p4, "factor.")
        for e in ev1:
            ob.add("pred", e)
        # exact posterior and evidence from the dense joint of (w, y_1..y_N)
        S0 = gtlib.fl(d["prior"]["Sig"][0]); m0 = gtlib.fl(d["prior"]["mu"][0])
        Ms = np.concatenate([gtlib.fl(o["c"]["M"][0]) for o in obs]); bs = np.concatenate([gtlib.fl(o["c"]["b"][0]) for o in obs])
        Rn = np.zeros((N * Dy, N * Dy))
        for i, o in enumerate(obs):
            Rn[i * Dy:(i + 1) * Dy, i * Dy:(i + 1) * Dy] = gtlib.fl(o["c"]["Sig"][0])
        y = np.concatenate([gtlib.fl(o["y"]) for o in obs])
        Syy = Ms @ S0 @ Ms.T + Rn
        K = S0 @ Ms.T @ np.linalg.inv(Syy)
        mu_post = m0 + K @ (y - Ms @ m0 - bs); S_post = S0 - K @ Ms @ S0
        true_ev = lin.logN(y[None], Ms @ m0 + bs, Syy)[0]
        for tag, p in (("sequential", p1), ("permuted order", p2), ("joint+condition_on", p3), ("prior x likelihood factors", p4)):
            lin.chk(fails, ["C11"], "posterior mean (%s)" % tag, "bayes", np.asarray(p.mu)[0], mu_post)
            lin.chk(fails, ["C11"], "posterior covariance (%s)" % tag, "bayes", np.asarray(p.Sigma)[0], S_post)
        lin.chk(fails, ["C11"], "sum of sequential predictive log-densities = log marginal likelihood", "bayes", np.sum(ev1), true_ev)
        if not gtlib.close(logev[0], true_ev):
            off = N * (Dy - Dw) * HL2P
            key = SETY_KEY if (Dw != Dy and abs((logev[0] - true_ev) - off) < 1e-8 * max(1.0, abs(true_ev))) else None
            fails.append(lin.fail(["C11"], "log_integral(prior x likelihood factors) = log marginal likelihood", "set_y/evidence", key,
                                  diff=float(logev[0] - true_ev), Dw=Dw, Dy=Dy, N=N))
        return ob, fails
    if d["scn"] == "batched":
        R, N, Dw, Dy = d["R"], d["N"], d["Dw"], d["Dy"]
        p = lin.impl_pdfv(d["prior"]); c, _ = lin.impl_cond(d["c"])
        ys = jarr(d["ys"]); xs = jarr(d["xs"])
        q = c.affine_conditional_transformation(p).condition_on_x(ys)
        obsP(ob, q, "post."); e_q = np.asarray(q.evaluate_ln(xs)); ob.add("post.evaluate_ln", e_q)
        ev = np.asarray(c.affine_marginal_transformation(p).evaluate_ln(ys)); ob.add("pred", ev)
        m = p.multiply(c.set_y(ys))
        logev = np.asarray(m.log_integral()); ob.add("log_evidence", logev)
        g4 = m.get_density(); obsP(ob, g4, "factor.")
        M = gtlib.fl(d["c"]["M"][0]); b = gtlib.fl(d["c"]["b"][0]); Rn = gtlib.fl(d["c"]["Sig"][0])
        x = gtlib.fl(d["xs"])
        for r in range(R):
            S0 = gtlib.fl(d["prior"]["Sig"][r]); m0 = gtlib.fl(d["prior"]["mu"][r])
            Syy = M @ S0 @ M.T + Rn; K = S0 @ M.T @ np.linalg.inv(Syy)
            for n in range(N):
                y = gtlib.fl(d["ys"][n]); k = r * N + n
                mu_post = m0 + K @ (y - M @ m0 - b); S_post = S0 - K @ M @ S0
                tev = lin.logN(y[None], M @ m0 + b, Syy)[0]
                for tag, o in (("sequential", q), ("prior x likelihood factors", g4)):
                    lin.chk(fails, ["C11"], "posterior mean, component r*N+n (%s)" % tag, "bayes-batched", np.asarray(o.mu)[k], mu_post)
                    lin.chk(fails, ["C11"], "posterior covariance, component r*N+n (%s)" % tag, "bayes-batched", np.asarray(o.Sigma)[k], S_post)
                lin.chk(fails, ["C11"], "posterior log-density, component r*N+n", "bayes-batched", e_q[k], lin.logN(x, mu_post, S_post))
                lin.chk(fails, ["C11"], "predictive log-density [r, n]", "bayes-batched", ev[r, n], tev)
                if not gtlib.close(logev[k], tev):
                    off = (Dy - Dw) * HL2P
                    key = SETY_KEY if (Dw != Dy and abs((logev[k] - tev) - off) < 1e-8 * max(1.0, abs(tev))) else None
                    fails.append(lin.fail(["C11"], "log_integral(prior x likelihood factor) = predictive log-density, component r*N+n", "set_y/evidence", key,
                                          diff=float(logev[k] - tev), Dw=Dw, Dy=Dy))
        return ob, fails
    # ---- Kalman filter
    Dz, Dx, T = d["Dz"], d["Dx"], d["T"]
    st, _ = lin.impl_cond(d["state"]); em, _ = lin.impl_cond(d["emis"])
    p = lin.impl_pdfv(d["prior"])
    evs = []
    for y in d["ys"]:
        pred = st.affine_marginal_transformation(p)
        evs.append(np.asarray(em.affine_marginal_transformation(pred).evaluate_ln(jarr([y]))).reshape(-1))
        p = em.affine_conditional_transformation(pred).condition_on_x(jarr([y]))
    obsP(ob, p, "filter.")
    for e in evs:
        ob.add("pred", e)
    # the factorisation of the full joint density at one trajectory (theorem C11_kalman_factorisation), on the
    # implementation: ln p(x_0) + sum_t [ln p(x_t|x_t-1) + ln p(y_t|x_t)]
    #                 = evidence + ln filtered(x_T) + sum_t ln p(x_t-1 | x_t, y_1..t-1)
    traj = d.get("traj") or [[Fr(0)] * Dz] * (T + 1)
    X = [jarr([x]) for x in traj]
    p0 = lin.impl_pdfv(d["prior"])
    ev1 = lambda o, x: float(np.asarray(o.evaluate_ln(x)).reshape(-1)[0])
    joint = ev1(p0, X[0]); back = 0.0; q = p0
    for t, y in enumerate(d["ys"]):
        joint += ev1(st.condition_on_x(X[t]), X[t + 1]) + ev1(em.condition_on_x(X[t + 1]), jarr([y]))
        back += ev1(st.affine_conditional_transformation(q).condition_on_x(X[t + 1]), X[t])
        pred = st.affine_marginal_transformation(q)
        q = em.affine_conditional_transformation(pred).condition_on_x(jarr([y]))
    filt_T = ev1(p, X[T])
    ob.add("kevidence", [float(np.sum(evs))]); ob.add("filtered(x_T)", [filt_T]); ob.add("kjoint", [joint]); ob.add("kback_sum", [back])
    lin.chk(fails, ["C11"], "full joint density = evidence x filtered density x backward kernels at a trajectory", "kalman",
            [joint], [float(np.sum(evs)) + filt_T + back])
    # dense joint over z_0, z_1..z_T, x_1..x_T built independently, in EXACT rational arithmetic (a float64 dense
    # joint loses up to eight digits for expanding dynamics and T ~ 12: that was a false alarm of the thorough tier)
    from fractions import Fraction as Fr
    A = d["state"]["M"][0]; b = d["state"]["b"][0]; Q = d["state"]["Sig"][0]
    Cm = d["emis"]["M"][0]; dd = d["emis"]["b"][0]; Rm = d["emis"]["Sig"][0]
    m0 = list(d["prior"]["mu"][0]); S0 = d["prior"]["Sig"][0]
    n = (T + 1) * Dz + T * Dx
    Z = lambda r, c: [[Fr(0)] * c for _ in range(r)]
    mv = lambda M_, v: [sum(M_[i][k] * v[k] for k in range(len(v))) for i in range(len(M_))]
    G = Z(n, n); mean = [Fr(0)] * n
    Cov_e = Z(n, n); pos = 0
    for B in [S0] + [Q] * T + [Rm] * T:
        k = len(B)
        for i in range(k):
            for j in range(k):
                Cov_e[pos + i][pos + j] = Fr(B[i][j])
        pos += k
    mz = [Fr(x) for x in m0]; Gz = Z(Dz, n)
    for i in range(Dz):
        Gz[i][i] = Fr(1)
    for i in range(Dz):
        G[i] = list(Gz[i]); mean[i] = mz[i]
    for t in range(1, T + 1):
        mz = [x + y for x, y in zip(mv(A, mz), b)]; Gz = lin.fmm(A, Gz)
        for i in range(Dz):
            Gz[i][t * Dz + i] += 1
        for i in range(Dz):
            G[t * Dz + i] = list(Gz[i]); mean[t * Dz + i] = mz[i]
        r0 = (T + 1) * Dz + (t - 1) * Dx
        Gx = lin.fmm(Cm, Gz)
        for i in range(Dx):
            Gx[i][r0 + i] += 1
        mx = [x + y for x, y in zip(mv(Cm, mz), dd)]
        for i in range(Dx):
            G[r0 + i] = list(Gx[i]); mean[r0 + i] = mx[i]
    Sig = lin.fmm(lin.fmm(G, Cov_e), [list(r) for r in zip(*G)])
    iz = list(range(T * Dz, (T + 1) * Dz)); ix = list(range((T + 1) * Dz, n))
    sub = lambda I, J: [[Sig[i][j] for j in J] for i in I]
    yv = [Fr(v) for y in d["ys"] for v in y]
    Sxx = sub(ix, ix); Sxxi = lin.finv(Sxx); K = lin.fmm(sub(iz, ix), Sxxi)
    res = [yv[i] - mean[ix[i]] for i in range(len(ix))]
    mu_f = gtlib.fl([mean[iz[i]] + mv(K, res)[i] for i in range(Dz)])
    KS = lin.fmm(K, sub(ix, iz))
    S_f = gtlib.fl([[Sig[iz[i]][iz[j]] - KS[i][j] for j in range(Dz)] for i in range(Dz)])
    quad = sum(res[i] * mv(Sxxi, res)[i] for i in range(len(res)))
    dense_ev = -0.5 * float(quad) - 0.5 * (len(ix) * math.log(2 * math.pi) + (lambda dt: math.log(dt.numerator) - math.log(dt.denominator))(lin.fdet(Sxx)))
    lin.chk(fails, ["C11"], "filtered mean = conditioning the dense joint", "kalman", np.asarray(p.mu)[0], mu_f)
    lin.chk(fails, ["C11"], "filtered covariance = conditioning the dense joint", "kalman", np.asarray(p.Sigma)[0], S_f)
    lin.chk(fails, ["C11"], "accumulated evidence = log-density of all observations under the dense joint", "kalman",
            np.sum(evs), dense_ev)
    return ob, fails
