# C12: batches are independent components; slicing commutes with every operation.
from fractions import Fraction as Fr
from .. import gtlib
from ..gtlib import cq, cvec, cmat, cb3, cbool, cseq, cints, cnats, jarr, Obs
from . import common as C, lin, c03, c16

PROP = "C12"
PROPS_FILE = "props/C12.v"
RULE = ("cases = table of public operations {multiply (slice either operand, layout i*R2+j), hadamard, integrate (all 12 keys "
        "with per-component coefficients), log_integral, evaluate_ln, get_density, get_marginal, linear sum, condition_on, "
        "entropy, kl, update, condition_on_x (layout r*N+n), set_y (R=N), joint / marginal / conditional transformation "
        "with the batch on the conditional and on p_x, conditional entropy, mutual information} x index arrays with "
        "repetitions, negative entries and permutations, R in 2..6; non-trivial = index array not the identity; distinct = "
        "SHA1 of the input")
EXPLANATION = ("metamorphic: op(obj).slice(idx') is compared with op(obj.slice(idx)) on the implementation (oracle) and both "
               "sides are compared with the model (slice/update/take index semantics of Obj.nidx, layouts of Factor/Pdf/Cond) "
               "evaluated at Qc")
OPS = ["mul_u", "mul_f", "had", "integrate", "log_integral", "density", "marginal", "linsum", "condition_on", "entropy_kl",
       "update", "cond_x", "set_y", "joint_c", "joint_p", "marg_c", "marg_p", "post_c", "post_p", "info_c", "info_p", "fslice"]


def plain(p):
    """update() is defined for float64 jax arrays (it writes through .at[] into the arrays it finds): no numpy / float32 inputs"""
    p = dict(p)
    for k in ("np_params", "f32_mu", "twice"):
        p.pop(k, None)
    return p


def pre_check(workdir, tier):
    """regenerated syntactic theorems (harness/purity_extract.py, coq/schema/PurityThm.v): every `slice` method returns a
    freshly constructed object, and no product / evaluation / slice method stores into an operand"""
    from . import c01
    return c01.pre_check(workdir, tier)


def gen_idx(g, R):
    k = g.randint(1, min(R + 1, 4))
    mode = g.choice(["rep", "neg", "perm", "mixed"])
    if mode == "perm":
        idx = list(range(R)); g.shuffle(idx); idx = idx[:max(k, 2)]
    elif mode == "rep":
        idx = [g.randint(0, R - 1) for _ in range(k)] + [g.randint(0, R - 1)]
        idx[-1] = idx[0]
    elif mode == "neg":
        idx = [g.randint(-R, -1) for _ in range(k)]
    else:
        idx = [g.randint(-R, R - 1) for _ in range(k)]
    return idx


def gen_case(g, op, R, D):
    d = dict(op=op, idx=gen_idx(g, R), xs=g.mat(2, D))
    if op in ("mul_u", "mul_f", "had"):
        kind = g.choice(["general", "onerank", "linear", "constant", "pdf"])
        Rf = R if op == "mul_f" else (g.randint(1, 2) if op == "mul_u" else g.choice([1, R]))
        Ru = g.randint(1, 2) if op == "mul_f" else R
        d.update(u=(C.gen_measure(g, Ru, D) if g.randint(0, 1) else dict(lin.gen_pdfv(g, Ru, D, ctor="Sigma"), ispdf=True)),
                 f=C.gen_factor(g, kind, Rf, D), upd=bool(g.randint(0, 1)), cached=bool(g.randint(0, 1)))
        if kind == "pdf":
            d["f"]["ctor"] = "Sigma"
    elif op == "integrate":
        key = g.choice([k for k in c03.KEYS if k not in ("x", "xx'")])
        cd = c03.gen_case(g, key, R, D, False, "per")
        d.update(m=cd)
    elif op in ("log_integral", "density"):
        d.update(u=C.gen_measure(g, R, D, diag=(g.randint(0, 4) == 0)), cached=bool(g.randint(0, 1)))
    elif op in ("marginal", "condition_on"):
        D = max(D, 2)
        k = g.randint(1, D - 1)
        dims = list(range(D)); g.shuffle(dims)
        d.update(p=lin.gen_pdfv(g, R, D, diag=(op == "marginal" and g.randint(0, 4) == 0)), dims=dims[:k], xs=g.mat(2, D))
    elif op == "linsum":
        ds = g.randint(1, D)
        while True:
            W = [g.imat(ds, D) for _ in range(R)]
            if all(lin.fdet(lin.fmm(w, [list(c) for c in zip(*w)])) != 0 for w in W):
                break
        d.update(p=lin.gen_pdfv(g, R, D), ds=ds, W=W, b=g.mat(R, ds), xs=g.mat(2, ds))
    elif op == "entropy_kl":
        d.update(p=lin.gen_pdfv(g, R, D), p1=lin.gen_pdfv(g, R, D))
    elif op == "update":
        k = g.randint(1, R)
        pos = list(range(R)); g.shuffle(pos); pos = pos[:k]
        if g.randint(0, 1):
            pos = [i - R if g.randint(0, 1) else i for i in pos]
        d.update(p=plain(lin.gen_pdfv(g, R, D, ctor="Sigma")), q=plain(lin.gen_pdfv(g, k, D, ctor="Sigma")), idx=pos)
    elif op == "fslice":
        d.update(f=C.gen_factor(g, g.choice(["general", "onerank", "linear", "constant"]), R, D))
    else:
        cls = g.choice(["full", "diag", "ident", "identdiag", "nn"])
        Dy, Dx = g.randint(1, 2), D
        if op in ("cond_x", "set_y"):
            c = lin.gen_cond(g, cls, R, Dy, Dx)
            N = g.randint(1, 3) if op == "cond_x" else R
            d.update(c=c, pts=g.mat(N, c["Dx"] if op == "cond_x" else c["Dy"]), xs=g.mat(2, c["Dy"] if op == "cond_x" else c["Dx"]))
        else:
            on_c = op.endswith("_c")
            c = lin.gen_cond(g, cls, R if on_c else 1, Dy, Dx)
            p = lin.gen_pdfv(g, 1 if on_c else R, c["Dx"])
            d.update(c=c, p=p, xs=g.mat(2, c["Dx"]), ys=g.mat(2, c["Dy"]))
    return d


def gen_descs(g, tier):
    q = tier == "quick"
    out = []
    reps = 4 if q else 60
    for op in OPS:
        for _ in range(reps):
            R = g.randint(2, 4 if q else 6)
            out.append(C.J(gen_case(g, op, R, g.randint(1, 3))))
    # approximate conditionals with a batched p(x) and truncated measures: slicing the result = slicing the operands
    # (metamorphic oracle on the implementation only; the models of these objects are per component)
    for kind in ("lrbf", "lsem", "exp", "coshm1", "heaviside", "relu"):
        for _ in range(1 if q else 8):
            R = g.randint(2, 3)
            f = c16.gen_case(g, kind, g.randint(1, 2), g.randint(1, 2), g.randint(1, 2) if kind in ("lrbf", "lsem") else 1, R=R)
            f["p"] = lin.gen_pdfv(g, R, f["Dx"], ctor="Sigma"); f["R"] = R
            out.append(C.J(dict(op="approx", idx=gen_idx(g, R), xs=g.mat(2, f["Dy"]), f=f, ys=g.mat(R, f["Dy"]))))
    for _ in range(3 if q else 30):
        R = g.randint(2, 4)
        lo = [g.q() for _ in range(R)]
        out.append(C.J(dict(op="trunc", idx=gen_idx(g, R), xs=g.mat(3, 1), u=C.gen_measure(g, R, 1), lo=lo,
                            hi=[l + g.qpos() for l in lo], mode=g.choice(["both", "lower", "upper"]))))
    # slicing returns an INDEPENDENT object: updating the slice in place leaves the source unchanged and vice versa
    # (also for R = 1 and a single index, where "nothing needs to be selected")
    for (R, idx) in [(1, [0]), (1, [-1]), (2, [1]), (3, [0, 2]), (1, [0, 0])]:
        for diag in (False, True):
            D = g.randint(1, 2)
            out.append(C.J(dict(op="alias", idx=idx, xs=g.mat(2, D), p=plain(lin.gen_pdfv(g, R, D, diag=diag, ctor="Sigma")),
                                q=plain(lin.gen_pdfv(g, 1, D, diag=diag, ctor="Sigma")))))
    # update(idx, d): systematic address patterns -- gaps, descending, mixed negative, a full permutation, one component
    for (R, pos) in [(3, [0, 2]), (4, [3, 1]), (4, [-1, 0]), (3, [2, 0, 1]), (5, [4, 0, 2]), (3, [1]), (4, [1, 2]), (4, [-2, -4])]:
        d = gen_case(g, "update", R, g.randint(1, 2))
        d.update(q=plain(lin.gen_pdfv(g, len(pos), d["p"]["D"], ctor="Sigma")), idx=pos)
        out.append(C.J(d))
    return out


def search_descs(g, failing, tier):
    return [C.J(gen_case(g, d["op"], 2, g.randint(1, 2))) for d in failing[:10] for _ in range(4)]


hist = lambda d: dict(op=d["op"], n_idx=len(d["idx"]), neg=any(i < 0 for i in d["idx"]), rep=len(set(d["idx"])) < len(d["idx"]))
nontrivial = lambda d: True
scenario = lambda d: d["op"]


def cond_slice_desc(c, idx):
    """description of the sliced conditional (for building the RHS operand exactly)"""
    R = lin.cond_R(c)
    ii = [i % R for i in idx]
    c2 = dict(c)
    if c["cls"] == "nn":
        c2.update(Ru=len(ii), u=[c["u"][i] for i in ii], M=[c["M"][i] for i in ii], b=[c["b"][i] for i in ii])
    else:
        c2.update(R=len(ii), Sig=[c["Sig"][i] for i in ii])
        if c.get("Sig0") is not None:          # the update_Sigma history is sliced with the object
            c2["Sig0"] = [c["Sig0"][i] for i in ii]
        if c["cls"] in ("full", "diag"):
            c2.update(M=[c["M"][i] for i in ii], b=None if c["b"] is None else [c["b"][i] for i in ii])
    return c2


# ------------------------------------------------------------------ Coq terms: LHS = slice (op x), RHS = op (slice x)
def coq_u(u, cached):
    t = lin.coq_pdfv(u) if u.get("ispdf") else C.coq_measure(u)
    return "(prepare %s)" % t if cached and not u.get("ispdf") else t


def coq_term(d):
    d = C.U(d)
    op, idx = d["op"], d["idx"]
    I = cints(idx)
    xs = cmat(d["xs"])
    if op in ("approx", "trunc", "alias"):
        return "dnat %d" % len(idx)
    if op in ("mul_u", "mul_f", "had"):
        u = coq_u(d["u"], d["cached"]); f = C.coq_factor(d["f"]) if d["f"]["kind"] != "pdf" else "(factor_of_measure %s)" % lin.coq_pdfv(d["f"])
        Ru, Rf = d["u"]["R"], d["f"]["R"]
        upd = cbool(d["upd"])
        if op == "mul_u":
            ridx = [(i % Ru) * Rf + j for i in idx for j in range(Rf)]
            return "obs_all (uslice %s (multiply %s %s %s)) %s ++ obs_all (multiply %s (uslice %s %s) %s) %s" % (
                cints(ridx), upd, u, f, xs, upd, I, u, f, xs)
        if op == "mul_f":
            ridx = [i * Rf + (j % Rf) for i in range(Ru) for j in idx]
            return "obs_all (uslice %s (multiply %s %s %s)) %s ++ obs_all (multiply %s %s (fslice %s %s)) %s" % (
                cints(ridx), upd, u, f, xs, upd, u, I, f, xs)
        fs = "(fslice %s %s)" % (I, f) if Rf > 1 else f
        return "obs_all (uslice %s (hadamard %s %s %s)) %s ++ obs_all (hadamard %s (uslice %s %s) %s) %s" % (
            I, upd, u, f, xs, upd, I, u, fs, xs)
    if op == "integrate":
        m = d["m"]
        full = c03.coq_term(m)
        # slice the measure and every per-component coefficient
        R = m["o"]["R"]
        ii = [i % R for i in idx]
        m2 = slice_c03(m, ii)
        return "(%s) ++ (%s)" % (sel_c03(m, idx), c03.coq_term(m2))
    if op == "log_integral":
        u = coq_u(d["u"], d["cached"])
        return "selR %d %s (fun r => dumpL ((log_integral %s).2 r)) ++ dL %d (log_integral (uslice %s %s)).2" % (
            d["u"]["R"], I, u, len(idx), I, u)
    if op == "density":
        u = coq_u(d["u"], d["cached"])
        return "obs_all (uslice %s (get_density %s).2) %s ++ obs_all (get_density (uslice %s %s)).2 %s" % (I, u, xs, I, u, xs)
    if op == "marginal":
        p = lin.coq_pdfv(d["p"]); dm = cnats(d["dims"]); x2 = cmat([[x[i] for i in d["dims"]] for x in d["xs"]])
        return "obs_all (uslice %s (get_marginal %s %s)) %s ++ obs_all (get_marginal %s (uslice %s %s)) %s" % (I, dm, p, x2, dm, I, p, x2)
    if op == "linsum":
        p = lin.coq_pdfv(d["p"]); R = d["p"]["R"]; ii = [i % R for i in idx]
        W2 = [d["W"][i] for i in ii]; b2 = [d["b"][i] for i in ii]
        return ("obs_all (uslice %s (density_of_linear_sum %d (lb3 %s) (Some (lb2 %s)) %s)) %s ++ "
                "obs_all (density_of_linear_sum %d (lb3 %s) (Some (lb2 %s)) (uslice %s %s)) %s" % (
                    I, d["ds"], cb3(d["W"]), cmat(d["b"]), p, xs, d["ds"], cb3(W2), cmat(b2), I, p, xs))
    if op == "condition_on":
        p = lin.coq_pdfv(d["p"]); dm = cnats(d["dims"])
        return "obs_cond (cslice %s (condition_on %s %s)) ++ obs_cond (condition_on %s (uslice %s %s))" % (I, dm, p, dm, I, p)
    if op == "entropy_kl":
        p = lin.coq_pdfv(d["p"]); p1 = lin.coq_pdfv(d["p1"]); R = d["p"]["R"]; n = len(idx)
        return ("selR %d %s (fun r => dumpL (entropy %s r)) ++ dL %d (entropy (uslice %s %s)) ++ "
                "selR %d %s (fun r => dumpL (kl_divergence %s %s r)) ++ dL %d (kl_divergence (uslice %s %s) (uslice %s %s))" % (
                    R, I, p, n, I, p, R, I, p, p1, n, I, p, I, p1))
    if op == "update":
        p = lin.coq_pdfv(d["p"]); qd = lin.coq_pdfv(d["q"])
        return "obs_all (pdf_update %s %s %s) %s" % (I, p, qd, xs)
    if op == "fslice":
        return "obs_fall (fslice %s %s) %s" % (I, C.coq_factor(d["f"]), xs)
    c = lin.coq_cond(d["c"])
    Rc = lin.cond_R(d["c"])
    c2 = lin.coq_cond(cond_slice_desc(d["c"], idx))
    if op == "cond_x":
        N = len(d["pts"]); ridx = [(i % Rc) * N + n for i in idx for n in range(N)]
        pts = cmat(d["pts"])
        return "obs_all (uslice %s (condition_on_x %s (lxs %s))) %s ++ obs_all (condition_on_x %s (lxs %s)) %s" % (
            cints(ridx), c, pts, xs, c2, pts, xs)
    if op == "set_y":
        ys2 = [d["pts"][i % Rc] for i in idx]
        return "obs_fall (fslice %s (set_y true %s (lxs %s))) %s ++ obs_fall (set_y true %s (lxs %s)) %s" % (
            I, c, cmat(d["pts"]), xs, c2, cmat(ys2), xs)
    p = lin.coq_pdfv(d["p"])
    on_c = op.endswith("_c")
    cs, ps = (c2, p) if on_c else (c, "(uslice %s %s)" % (I, p))
    zs = cmat([x + y for x, y in zip(d["xs"], d["ys"])])
    if op.startswith("joint"):
        return "obs_all (uslice %s (affine_joint %s %s)) %s ++ obs_all (affine_joint %s %s) %s" % (I, c, p, zs, cs, ps, zs)
    if op.startswith("marg"):
        ys = cmat(d["ys"])
        return "obs_all (uslice %s (affine_marginal %s %s)) %s ++ obs_all (affine_marginal %s %s) %s" % (I, c, p, ys, cs, ps, ys)
    if op.startswith("post"):
        return "obs_cond (cslice %s (affine_conditional %s %s)) ++ obs_cond (affine_conditional %s %s)" % (I, c, p, cs, ps)
    if op.startswith("info"):
        R = Rc * d["p"]["R"]; n = len(idx)
        return ("selR %d %s (fun r => dumpL (conditional_entropy %s %s r)) ++ dL %d (conditional_entropy %s %s) ++ "
                "selR %d %s (fun r => dumpL (mutual_information false %s %s r)) ++ dL %d (mutual_information false %s %s)" % (
                    R, I, c, p, n, cs, ps, R, I, c, p, n, cs, ps))
    raise ValueError(op)


def slice_c03(m, ii):
    m2 = dict(m)
    o = dict(m["o"])
    for k in ("Lam", "nu", "lb", "Sig", "mu"):
        if k in o:
            o[k] = [o[k][i] for i in ii]
    o["R"] = len(ii)
    m2["o"] = o
    forms = {}
    for n, f in m["forms"].items():
        f2 = dict(f)
        if "mat" in f or "vec" in f:
            for part in ("mat", "vec"):
                if f.get(part) is not None:
                    pp = dict(f[part])
                    if pp["per"]:
                        pp["val"] = [pp["val"][i] for i in ii]
                        if len(ii) == 1:
                            pp["per"] = False       # a single remaining component: passed as shared (same values)
                    f2[part] = pp
        else:
            if f.get("per"):
                f2["val"] = [f["val"][i] for i in ii]
                if len(ii) == 1:
                    f2["per"] = False
        forms[n] = f2
    m2["forms"] = forms
    return m2


def sel_c03(m, idx):
    """Coq term: the full integral's entries taken at idx (log-mass first, then expectations)"""
    t = c03.coq_term(m)
    # c03 term: let u := U in obs_mass u ++ perR R (fun r => DUMP (F r))
    R = m["o"]["R"]
    I = cints(idx)
    t = t.replace("obs_mass u ++ perR %d (fun r =>" % R, "selR %d %s (fun r => dumpL (log_mass u r)) ++ selR %d %s (fun r =>" % (R, I, R, I), 1)
    return t


# ------------------------------------------------------------------ implementation
def impl_u(u, cached):
    o = lin.impl_pdfv(u) if u.get("ispdf") else C.impl_measure(u)
    if cached and not u.get("ispdf"):
        o.integrate()
    return o


def same(fails, what, a, b, xs=None, kind="obj"):
    import numpy as np
    if kind == "arr":
        lin.chk(fails, ["C12"], what, "slice", a, b)
        return
    names = ["Lambda", "nu", "ln_beta"] if kind == "obj" else (["M", "b", "Sigma", "Lambda", "ln_det_Sigma"] if kind == "cond" else ["Lambda", "nu", "ln_beta"])
    for n in names:
        lin.chk(fails, ["C12"], "%s: %s" % (what, n), "slice", getattr(a, n), getattr(b, n))
    if kind == "obj":
        for n in ("Sigma", "ln_det_Sigma", "mu", "lnZ"):
            x, y = getattr(a, n, None), getattr(b, n, None)
            if x is not None and y is not None:
                lin.chk(fails, ["C12"], "%s: %s" % (what, n), "slice", x, y)


def run_impl(d):
    import numpy as np
    d = C.U(d)
    I = gtlib.impl(); jnp = I["jnp"]
    op, idx = d["op"], d["idx"]
    ji = jnp.array(idx)
    ob = Obs(); fails = []
    xs = d["xs"]
    if op == "approx":
        ob.nat("n", len(idx))
        f = d["f"]; kind = f["kind"]
        c, p = c16.build(f)
        ps = lin.impl_pdfv(f["p"]).slice(ji)
        het = kind not in ("lrbf", "lsem")
        # (moment matching of the heteroscedastic classes is declared for a single-component p(x) only: integrate_Sigma_x
        #  returns "1 Dy Dy"; with a batch the step / ReLU links silently use component 0 -- outside every property, not tested)
        pairs = []
        if not het:
            pairs.append(("affine_marginal_transformation", c.affine_marginal_transformation(p).slice(ji), c.affine_marginal_transformation(ps)))
            pairs.append(("affine_joint_transformation", c.affine_joint_transformation(p).slice(ji), c.affine_joint_transformation(ps)))
        for nm, a, b in pairs:
            same(fails, "%s[%s]" % (nm, kind), a, b)
        if het:
            ys = jarr(d["ys"]); ysl = jarr([d["ys"][i % f["R"]] for i in idx])
            a = np.take(np.asarray(c.integrate_log_conditional_y(p, y=ys)).reshape(-1), np.array(idx)); b = np.asarray(c.integrate_log_conditional_y(ps, y=ysl)).reshape(-1)
            same(fails, "integrate_log_conditional_y[%s]" % kind, a, b, kind="arr")
        return ob, fails
    if op == "alias":
        ob.nat("n", len(idx))
        names = ("Lambda", "Sigma", "mu", "nu", "ln_beta", "lnZ", "ln_det_Sigma")
        snap = lambda o: {n: np.array(getattr(o, n)) for n in names}
        def unchanged(a, b):
            return all(a[n].shape == b[n].shape and np.array_equal(a[n], b[n]) for n in names)
        z = jnp.array([0])
        p1 = lin.impl_pdfv(d["p"]); s1 = p1.slice(ji); before = snap(p1)
        s1.update(z, lin.impl_pdfv(d["q"]))
        if not unchanged(before, snap(p1)):
            fails.append(lin.fail(["C12"], "updating a slice in place changed the object it was sliced from", "pdf.slice/update"))
        p2 = lin.impl_pdfv(d["p"]); s2 = p2.slice(ji); before = snap(s2)
        p2.update(z, lin.impl_pdfv(d["q"]))
        if not unchanged(before, snap(s2)):
            fails.append(lin.fail(["C12"], "updating an object in place changed a slice taken from it earlier", "pdf.slice/update"))
        return ob, fails
    if op == "trunc":
        from gaussian_toolbox.experimental import truncated_measure as tmod
        ob.nat("n", len(idx))
        R = d["u"]["R"]; ii = [i % R for i in idx]
        lo = None if d["mode"] == "upper" else jarr([[v] for v in d["lo"]]); hi = None if d["mode"] == "lower" else jarr([[v] for v in d["hi"]])
        lo2 = None if lo is None else jarr([[d["lo"][i]] for i in ii]); hi2 = None if hi is None else jarr([[d["hi"][i]] for i in ii])
        u = C.impl_measure(d["u"])
        tm = tmod.TruncatedGaussianMeasure(measure=u, lower_limit=lo, upper_limit=hi)
        tm2 = tmod.TruncatedGaussianMeasure(measure=C.impl_measure(d["u"]).slice(ji), lower_limit=lo2, upper_limit=hi2)
        for key, kw in (("1", {}), ("x", {}), ("x**2", {}), ("x**k", dict(k=3))):
            a = np.take(np.asarray(tm.integrate(key, **kw)), np.array(idx), axis=0); b = np.asarray(tm2.integrate(key, **kw))
            same(fails, "truncated integrate(%r)" % key, a, b, kind="arr")
        return ob, fails
    if op in ("mul_u", "mul_f", "had"):
        u = impl_u(d["u"], d["cached"]); f = lin.impl_pdfv(d["f"]) if d["f"]["kind"] == "pdf" else C.impl_factor(d["f"])
        Ru, Rf = d["u"]["R"], d["f"]["R"]
        if op == "mul_u":
            ridx = [(i % Ru) * Rf + j for i in idx for j in range(Rf)]
            a = u.multiply(f, update_full=d["upd"]).slice(jnp.array(ridx)); b = impl_u(d["u"], d["cached"]).slice(ji).multiply(f, update_full=d["upd"])
        elif op == "mul_f":
            ridx = [i * Rf + (j % Rf) for i in range(Ru) for j in idx]
            a = u.multiply(f, update_full=d["upd"]).slice(jnp.array(ridx)); b = u.multiply(f.slice(ji), update_full=d["upd"])
        else:
            a = u.hadamard(f, update_full=d["upd"]).slice(ji)
            b = impl_u(d["u"], d["cached"]).slice(ji).hadamard(f.slice(ji) if Rf > 1 else f, update_full=d["upd"])
        lin.obs_all(ob, a, xs, "lhs."); lin.obs_all(ob, b, xs, "rhs.")
        same(fails, op, a, b)
        return ob, fails
    if op == "integrate":
        m = d["m"]; R = m["o"]["R"]; ii = [i % R for i in idx]
        obj = C.impl_measure(m["o"])
        mass = np.asarray(obj.integral()); val = np.asarray(obj.integrate(m["key"], **c03.impl_kwargs(m)))
        ratio = val / mass.reshape((R,) + (1,) * (val.ndim - 1))
        li = np.asarray(obj.log_integral())
        m2 = slice_c03(m, ii)
        obj2 = C.impl_measure(m["o"]).slice(ji)
        mass2 = np.asarray(obj2.integral()); val2 = np.asarray(obj2.integrate(m["key"], **c03.impl_kwargs(m2)))
        ratio2 = val2 / mass2.reshape((len(ii),) + (1,) * (val2.ndim - 1))
        ob.add("lhs.log_integral", np.take(li, np.array(idx), axis=0)); ob.add("lhs.E", np.take(ratio, np.array(idx), axis=0))
        ob.add("rhs.log_integral", obj2.log_integral()); ob.add("rhs.E", ratio2)
        same(fails, "integrate(%r)" % m["key"], np.take(val, np.array(idx), axis=0), val2, kind="arr")
        return ob, fails
    if op == "log_integral":
        u = impl_u(d["u"], d["cached"])
        a = np.take(np.asarray(u.log_integral()), np.array(idx)); b = np.asarray(impl_u(d["u"], d["cached"]).slice(ji).log_integral())
        ob.add("lhs", a); ob.add("rhs", b); same(fails, op, a, b, kind="arr")
        e1 = np.take(np.asarray(u.evaluate_ln(jarr(xs))), np.array(idx), axis=0); e2 = np.asarray(u.slice(ji).evaluate_ln(jarr(xs)))
        same(fails, "evaluate_ln", e1, e2, kind="arr")
        return ob, fails
    if op == "density":
        a = impl_u(d["u"], d["cached"]).get_density().slice(ji); b = impl_u(d["u"], d["cached"]).slice(ji).get_density()
        lin.obs_all(ob, a, xs, "lhs."); lin.obs_all(ob, b, xs, "rhs."); same(fails, op, a, b)
        return ob, fails
    if op in ("marginal", "linsum", "condition_on", "entropy_kl", "update"):
        p = lin.impl_pdfv(d["p"])
        if op == "marginal":
            dm = jnp.array(d["dims"]); x2 = [[x[i] for i in d["dims"]] for x in xs]
            a = p.get_marginal(dm).slice(ji); b = p.slice(ji).get_marginal(dm)
            lin.obs_all(ob, a, x2, "lhs."); lin.obs_all(ob, b, x2, "rhs."); same(fails, op, a, b)
        elif op == "linsum":
            R = d["p"]["R"]; ii = [i % R for i in idx]
            a = p.get_density_of_linear_sum(jarr(d["W"]), jarr(d["b"])).slice(ji)
            b = p.slice(ji).get_density_of_linear_sum(jarr([d["W"][i] for i in ii]), jarr([d["b"][i] for i in ii]))
            lin.obs_all(ob, a, xs, "lhs."); lin.obs_all(ob, b, xs, "rhs."); same(fails, op, a, b)
        elif op == "condition_on":
            dm = jnp.array(d["dims"])
            a = p.condition_on(dm).slice(ji); b = p.slice(ji).condition_on(dm)
            lin.obs_cond(ob, a, "lhs."); lin.obs_cond(ob, b, "rhs."); same(fails, op, a, b, kind="cond")
        elif op == "entropy_kl":
            p1 = lin.impl_pdfv(d["p1"])
            a = np.take(np.asarray(p.entropy()), np.array(idx)); b = np.asarray(p.slice(ji).entropy())
            k1 = np.take(np.asarray(p.kl_divergence(p1)), np.array(idx)); k2 = np.asarray(p.slice(ji).kl_divergence(p1.slice(ji)))
            ob.add("lhs.entropy", a); ob.add("rhs.entropy", b); ob.add("lhs.kl", k1); ob.add("rhs.kl", k2)
            same(fails, "entropy", a, b, kind="arr"); same(fails, "kl", k1, k2, kind="arr")
        else:
            q = lin.impl_pdfv(d["q"])
            before = {n: np.array(getattr(p, n)) for n in ("Lambda", "Sigma", "mu", "nu", "ln_beta", "lnZ", "ln_det_Sigma")}
            p.update(ji, q)
            lin.obs_all(ob, p, xs)
            R = d["p"]["R"]; pos = [i % R for i in idx]
            for n, v in before.items():
                now = np.asarray(getattr(p, n))
                for r in range(R):
                    exp = np.asarray(getattr(q, n))[pos.index(r)] if r in pos else v[r]
                    if not gtlib.close(now[r], exp):
                        fails.append(lin.fail(["C12"], "update: component %d attribute %s" % (r, n), "pdf.update"))
        return ob, fails
    if op == "fslice":
        f = C.impl_factor(d["f"]); a = f.slice(ji)
        ev = np.asarray(a.evaluate_ln(jarr(xs)))
        ob.add("evaluate_ln", ev); C.obs_ucore(ob, a, R=len(idx))
        same(fails, "factor slice", ev, np.take(np.asarray(f.evaluate_ln(jarr(xs))), np.array(idx), axis=0), kind="arr")
        return ob, fails
    c, ckw = lin.impl_cond(d["c"])
    nn = d["c"]["cls"] == "nn"
    Rc = lin.cond_R(d["c"])
    c2, ckw2 = lin.impl_cond(cond_slice_desc(d["c"], idx))
    if op == "cond_x":
        N = len(d["pts"]); ridx = [(i % Rc) * N + n for i in idx for n in range(N)]
        pts = jarr(d["pts"])
        a = (c.condition_on_x_u(pts, **ckw) if nn else c.condition_on_x(pts)).slice(jnp.array(ridx))
        b = (c2.condition_on_x_u(pts, **ckw2) if nn else c.slice(ji).condition_on_x(pts))
        lin.obs_all(ob, a, xs, "lhs."); lin.obs_all(ob, b, xs, "rhs."); same(fails, op, a, b)
        return ob, fails
    if op == "set_y":
        a = c.set_y(jarr(d["pts"]), **ckw).slice(ji)
        ys2 = [d["pts"][i % Rc] for i in idx]
        b = c2.set_y(jarr(ys2), **ckw2) if nn else c.slice(ji).set_y(jarr(ys2))
        for t, o in (("lhs.", a), ("rhs.", b)):
            ob.add(t + "evaluate_ln", o.evaluate_ln(jarr(xs))); C.obs_ucore(ob, o, t, R=len(idx))
        same(fails, op, a, b, kind="factor")
        return ob, fails
    p = lin.impl_pdfv(d["p"])
    on_c = op.endswith("_c")
    if on_c:
        cs, cskw, ps = (c2, ckw2, p) if nn else (c.slice(ji), {}, p)
    else:
        cs, cskw, ps = c, ckw, p.slice(ji)
    zs = [x + y for x, y in zip(d["xs"], d["ys"])]
    if op.startswith("joint"):
        a = c.affine_joint_transformation(p, **ckw).slice(ji); b = cs.affine_joint_transformation(ps, **cskw)
        lin.obs_all(ob, a, zs, "lhs."); lin.obs_all(ob, b, zs, "rhs."); same(fails, op, a, b)
    elif op.startswith("marg"):
        a = c.affine_marginal_transformation(p, **ckw).slice(ji); b = cs.affine_marginal_transformation(ps, **cskw)
        lin.obs_all(ob, a, d["ys"], "lhs."); lin.obs_all(ob, b, d["ys"], "rhs."); same(fails, op, a, b)
    elif op.startswith("post"):
        a = c.affine_conditional_transformation(p, **ckw).slice(ji); b = cs.affine_conditional_transformation(ps, **cskw)
        lin.obs_cond(ob, a, "lhs."); lin.obs_cond(ob, b, "rhs."); same(fails, op, a, b, kind="cond")
    else:
        ce = np.asarray(c.conditional_entropy(p, **ckw)); mi = np.asarray(c.mutual_information(p, **ckw))
        ce2 = np.asarray(cs.conditional_entropy(ps, **cskw)); mi2 = np.asarray(cs.mutual_information(ps, **cskw))
        ob.add("lhs.ce", np.take(ce, np.array(idx))); ob.add("rhs.ce", ce2); ob.add("lhs.mi", np.take(mi, np.array(idx))); ob.add("rhs.mi", mi2)
        same(fails, "conditional_entropy", np.take(ce, np.array(idx)), ce2, kind="arr")
        same(fails, "mutual_information", np.take(mi, np.array(idx)), mi2, kind="arr")
    return ob, fails
