# C13: entropy, KL divergence, conditional entropy and mutual information
from . import lin, common as C
PROP = "C13"
PROPS_FILE = ["props/C13.v", "props/GI4.v"]
TRUSTED_EXTRA = ["props/GI4.v (entropy, KL, expected log-densities and the expected exp noise as iterated improper Riemann integrals, at Coq's real numbers: stdlib Reals + Coquelicot + base/RField.v) depends on the standard-library axioms ClassicalDedekindReals.sig_not_dec, sig_forall_dec, FunctionalExtensionality.functional_extensionality_dep, Classical_Prop.classic, Epsilon.epsilon_statement"]
RULE = ('cases = entropy / conditional_entropy / mutual_information for every conditional class x batch layout x dimension regime; kl_divergence with R=R, R=1 vs n, n vs 1 and with identical arguments (must be 0)' "; rational parameters (small integers over denominators 1,2,4; SPD = B B' + d I, cond <= 1e3), random constructor "
        "argument combination; non-trivial = more than one scalar dimension/component involved; distinct = SHA1 of the input description")
EXPLANATION = ('model entropy, kl_divergence (Pdf.v), conditional_entropy, mutual_information (Cond.v) at Qc in the log domain vs implementation; oracle: closed forms from numpy slogdet/solve of the exact joint moments; non-negativity of KL and MI')
coq_term = lin.coq_term
alt_terms = lin.alt_terms
run_impl = lin.filtered(PROP)
hist, nontrivial, scenario = lin.hist, lin.nontrivial, lin.scenario


def gen_descs(g, tier):
    q = tier == "quick"
    out = []
    for (cls, Rc, Rx, Dy, Dx) in lin.shapes_cond(g, tier, 10 if q else 400):
        out.append(lin.gen_scn(g, "entropies", cls=cls, Rc=Rc, Rx=Rx, Dy=Dy, Dx=Dx))
    for D in (1, 2, 3, 4):
        for R in (1, 3):
            out.append(lin.gen_scn(g, "kl", R=R, D=D))
            out.append(lin.gen_scn(g, "kl", R0=1, R1=3, D=D))
            out.append(lin.gen_scn(g, "kl", R0=3, R1=1, D=D))
            out.append(lin.gen_scn(g, "kl", R=R, D=D, same=True))
    for _ in range(0 if q else 300):
        out.append(lin.gen_scn(g, "kl", R=g.randint(1, 4), D=g.randint(1, 5)))
    return [C.J(d) for d in out]


def search_descs(g, failing, tier):
    # neighbours of the disagreeing cases: same scenario and class, the smallest shapes of every layout
    out = []
    for d in failing[:8]:
        kw = dict(cls=d["c"]["cls"]) if "c" in d else {}
        for (Rc, Rx) in [(1, 1), (1, 2), (2, 1)]:
            for (Dy, Dx) in [(1, 1), (1, 2), (2, 1)]:
                try:
                    out.append(C.J(lin.gen_scn(g, d["scn"], R=Rx, D=max(Dx, 2), Rc=Rc, Rx=Rx, Dy=Dy, Dx=Dx, **kw)))
                except Exception:
                    pass
    return out
