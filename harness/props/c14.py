# C14: expected log-factor and expected log-conditional integrals are exact.
import math
from fractions import Fraction as Fr
from .. import gtlib
from ..gtlib import cq, cvec, cmat, cb3, cbool, cseq, jarr, Obs
from . import common as C, lin, c16

PROP = "C14"
WIDEN_MAX = 150          # extra thorough-generator cases when the anchored sources have drifted (harness/drift.py)
PROPS_FILE = ["props/C14.v", "props/GI4.v"]
TRUSTED_EXTRA = ["props/GI4.v (entropy, KL, expected log-densities and the expected exp noise as iterated improper Riemann integrals, at Coq's real numbers: stdlib Reals + Coquelicot + base/RField.v) depends on the standard-library axioms ClassicalDedekindReals.sig_not_dec, sig_forall_dec, FunctionalExtensionality.functional_extensionality_dep, Classical_Prop.classic, Epsilon.epsilon_statement"]
RULE = ("cases = integrate('log u(x)', factor=f) for every factor kind (general, rank-one, linear, constant, measure, density) with "
        "factor batch 1 or R, measures and densities with R in 1..3, D in 1..4; integrate_log_conditional(q) for the five "
        "linear conditional classes with an arbitrary Gaussian q over (y,x) (not the model's own joint), R_q in 1..3; "
        "integrate_log_conditional_y(p_x, y) given y and as a callable that is held while the same conditional answers two further "
        "requests for another p(x) (both modes for every shape); non-trivial = more than one scalar dimension; "
        "distinct = SHA1 of the input")
EXPLANATION = ("model ExpLog.v (built on the quadratic-inner moment of Moments.v) at Qc in the log domain vs implementation "
               "(result divided by the total mass); oracle: closed form -1/2 (tr(A' Lambda A S) + (A m + a)' Lambda (A m + a)) - 1/2 "
               "ln det(2 pi Sigma) resp. -1/2 (tr(Lambda_f S) + m' Lambda_f m) + nu_f.m + ln beta_f from the exact moments (numpy)")
def _main(d):
    return d.get("u") or d.get("q") or d.get("p") or d["f"]["p"]


hist = lambda d: dict(scn=d["scn"], cls=(d.get("c") or {}).get("cls"), kind=(d.get("f") or {}).get("kind"),
                      R=_main(d)["R"], D=_main(d)["D"])
nontrivial = lambda d: _main(d)["R"] * _main(d)["D"] > 1
scenario = lambda d: d["scn"] + "/" + str((d.get("c") or {}).get("cls") or (d.get("f") or {}).get("kind"))


def gen_descs(g, tier):
    q = tier == "quick"
    out = []
    for kind in ["general", "onerank", "linear", "constant", "measure", "pdf"]:
        for (R, Rf) in [(1, 1), (3, 1), (2, 2)]:
            for ispdf in (False, True):
                D = g.randint(1, 3 if q else 4)
                u = dict(lin.gen_pdfv(g, R, D, ctor="Sigma"), ispdf=True) if ispdf else C.gen_measure(g, R, D)
                f = C.gen_factor(g, kind, Rf, D)
                if kind == "pdf":
                    f["ctor"] = "Sigma"
                out.append(dict(scn="log_factor", u=u, f=f))
    for cls in lin.CLS:
        for (Dy, Dx) in [(1, 1), (1, 2), (2, 1), (2, 2)]:
            for Rq in (1, 2):
                c = lin.gen_cond(g, cls, 1, Dy, Dx)
                out.append(dict(scn="log_cond", c=c, q=lin.gen_pdfv(g, Rq, c["Dy"] + c["Dx"], ctor="Sigma")))
                c = lin.gen_cond(g, cls, 1, Dy, Dx)
                N = g.choice([1, Rq])
                out.append(dict(scn="log_cond_y", c=c, p=lin.gen_pdfv(g, Rq, c["Dx"], ctor="Sigma"), ys=g.mat(N, c["Dy"]),
                                callable=bool((Dy + Dx + Rq) % 2)))
        # R_cond = R_q > 1 (general classes only)
        if cls in ("full", "diag"):
            c = lin.gen_cond(g, cls, 2, 2, 1)
            out.append(dict(scn="log_cond", c=c, q=lin.gen_pdfv(g, 2, 3, ctor="Sigma")))
    for kind in ("lrbf", "lsem"):
        for (Dx, Dy, Dk, Rq) in [(1, 1, 1, 1), (1, 2, 2, 2), (2, 1, 1, 1)] + ([] if q else [(2, 2, 2, 2), (1, 1, 2, 3)]):
            def noise_given_as(f, how):
                """the way the noise covariance is handed over is ENUMERATED per shape (drawn at random it can miss a stratum)"""
                for k in ("Sig0", "np_params", "twice", "fctor"):
                    f.pop(k, None)
                if how != "Sigma":
                    f["fctor"] = how
                return f
            f = c16.gen_case(g, kind, Dx, Dy, Dk, R=Rq)
            out.append(dict(scn="feat_log_cond", f=noise_given_as(f, "Sigma+Lambda"), q=lin.gen_pdfv(g, Rq, Dy + Dx, ctor="Sigma")))
            f = c16.gen_case(g, kind, Dx, Dy, Dk, R=Rq)
            out.append(dict(scn="feat_log_cond_y", f=noise_given_as(f, "Lambda"), ys=g.mat(g.choice([1, Rq]), Dy), callable=False))
            f = c16.gen_case(g, kind, Dx, Dy, Dk, R=Rq)      # the returned function, held across further requests (_other_calls)
            out.append(dict(scn="feat_log_cond_y", f=f, ys=g.mat(g.choice([1, Rq]), Dy), callable=True))
            f = c16.gen_case(g, kind, Dx, Dy, Dk, R=Rq)
            out.append(dict(scn="feat_log_cond", f=noise_given_as(f, "Lambda"), q=lin.gen_pdfv(g, Rq, Dy + Dx, ctor="Sigma")))
    for _ in range(0 if q else 600):
        cls = g.choice(lin.CLS)
        c = lin.gen_cond(g, cls, 1, g.randint(1, 3), g.randint(1, 3))
        Rq = g.randint(1, 3)
        if g.randint(0, 1):
            out.append(dict(scn="log_cond", c=c, q=lin.gen_pdfv(g, Rq, c["Dy"] + c["Dx"], ctor="Sigma")))
        else:
            out.append(dict(scn="log_cond_y", c=c, p=lin.gen_pdfv(g, Rq, c["Dx"], ctor="Sigma"), ys=g.mat(g.choice([1, Rq]), c["Dy"]),
                            callable=bool(g.randint(0, 1))))
    return [C.J(d) for d in out]


def search_descs(g, failing, tier):
    out = []
    for d in failing[:6]:
        if "c" in d:
            c = lin.gen_cond(g, d["c"]["cls"], 1, 1, 1)
            out.append(C.J(dict(scn="log_cond", c=c, q=lin.gen_pdfv(g, 1, c["Dy"] + c["Dx"], ctor="Sigma"))))
            out.append(C.J(dict(scn="log_cond_y", c=c, p=lin.gen_pdfv(g, 1, c["Dx"], ctor="Sigma"), ys=g.mat(1, c["Dy"]), callable=False)))
    return out


def coq_u(u):
    return lin.coq_pdfv(u) if u.get("ispdf") else C.coq_measure(u)


def coq_term(d):
    d = C.U(d)
    if d["scn"] == "log_factor":
        f = d["f"]
        ft = "(factor_of_measure %s)" % lin.coq_pdfv(f) if f["kind"] == "pdf" else C.coq_factor(f)
        return "let u := %s in obs_mass u ++ dL %d (int_log_factor u %s)" % (coq_u(d["u"]), d["u"]["R"], ft)
    if d["scn"].startswith("feat_"):
        return coq_feat(d)
    c = lin.coq_cond(d["c"])
    if d["scn"] == "log_cond":
        R = max(lin.cond_R(d["c"]), d["q"]["R"])
        return "dL %d (int_log_cond %s %s)" % (R, c, lin.coq_pdfv(d["q"]))
    R = max(d["p"]["R"], len(d["ys"]))
    return "dL %d (int_log_cond_y %s %s (lxs %s))" % (R, c, lin.coq_pdfv(d["p"]), cmat(d["ys"]))


def run_impl(d):
    import numpy as np
    d = C.U(d)
    ob = Obs(); fails = []
    if d["scn"] == "log_factor":
        u = lin.impl_pdfv(d["u"]) if d["u"].get("ispdf") else C.impl_measure(d["u"])
        f = lin.impl_pdfv(d["f"]) if d["f"]["kind"] == "pdf" else C.impl_factor(d["f"])
        val = np.asarray(u.integrate("log u(x)", factor=f)); mass = np.asarray(u.integral())
        ob.add("log_integral", u.log_integral()); ob.add("E[ln f]", val / mass)
        # oracle from exact moments
        R, D = d["u"]["R"], d["u"]["D"]
        Lf = np.asarray(f.Lambda, dtype=float); nf = np.asarray(f.nu, dtype=float); lbf = np.asarray(f.ln_beta, dtype=float)
        ex = []
        for r in range(R):
            if d["u"].get("ispdf"):
                mu, S = gtlib.fl(d["u"]["mu"][r]), gtlib.fl(d["u"]["Sig"][r])
            else:
                S = np.linalg.inv(gtlib.fl(d["u"]["Lam"][r])); mu = S @ gtlib.fl(d["u"]["nu"][r])
            rf = 0 if Lf.shape[0] == 1 else r
            ex.append(-0.5 * (np.trace(Lf[rf] @ S) + mu @ Lf[rf] @ mu) + nf[rf] @ mu + lbf[rf])
        lin.chk(fails, ["C14"], "integrate('log u(x)') = mass * E[ln f]", "measure.integrate_log_factor[%s]" % d["f"]["kind"], val / mass, np.array(ex))
        return ob, fails
    if d["scn"].startswith("feat_"):
        return run_feat(d, ob, fails)
    c, ckw = lin.impl_cond(d["c"])
    Dy, Dx = d["c"]["Dy"], d["c"]["Dx"]
    if d["scn"] == "log_cond":
        q = lin.impl_pdfv(d["q"])
        val = np.asarray(c.integrate_log_conditional(q, **ckw))
        ob.add("E_q[ln p(y|x)]", val)
        Rq = d["q"]["R"]; Rc = lin.cond_R(d["c"])
        ex = []
        for k in range(max(Rq, Rc)):
            M, b = lin.cond_Mb(d["c"], 0 if Rc == 1 else k)
            M = gtlib.fl(M); b = gtlib.fl(b); Sy = gtlib.fl(lin.cond_Sig(d["c"], 0 if Rc == 1 else k))
            mq = gtlib.fl(d["q"]["mu"][0 if Rq == 1 else k]); Sq = gtlib.fl(d["q"]["Sig"][0 if Rq == 1 else k])
            A = np.concatenate([np.eye(Dy), -M], axis=1); L = np.linalg.inv(Sy)
            res = A @ mq - b
            ex.append(-0.5 * (np.trace(A.T @ L @ A @ Sq) + res @ L @ res) - 0.5 * (Dy * math.log(2 * math.pi) + np.linalg.slogdet(Sy)[1]))
        lin.chk(fails, ["C14"], "integrate_log_conditional = E_q[ln p(y|x)]", "cond[%s].integrate_log_conditional" % d["c"]["cls"], val, np.array(ex))
        return ob, fails
    p = lin.impl_pdfv(d["p"])
    ys = jarr(d["ys"])
    if d["callable"]:
        fn = c.integrate_log_conditional_y(p, **ckw)
        _other_calls(c, p, ys, ckw)          # the callable is held while the same conditional serves other requests
        val = np.asarray(fn(ys))
    else:
        val = np.asarray(c.integrate_log_conditional_y(p, y=ys, **ckw))
    ob.add("E_p(x)[ln p(y|x)]", val)
    Rp = d["p"]["R"]; N = len(d["ys"])
    M, b = lin.cond_Mb(d["c"], 0); M = gtlib.fl(M); b = gtlib.fl(b); Sy = gtlib.fl(lin.cond_Sig(d["c"], 0)); L = np.linalg.inv(Sy)
    ex = []
    for k in range(max(Rp, N)):
        mp = gtlib.fl(d["p"]["mu"][0 if Rp == 1 else k]); Sp = gtlib.fl(d["p"]["Sig"][0 if Rp == 1 else k])
        y = gtlib.fl(d["ys"][0 if N == 1 else k])
        res = y - M @ mp - b
        ex.append(-0.5 * (np.trace(M.T @ L @ M @ Sp) + res @ L @ res) - 0.5 * (Dy * math.log(2 * math.pi) + np.linalg.slogdet(Sy)[1]))
    lin.chk(fails, ["C14"], "integrate_log_conditional_y = E_p(x)[ln p(y|x)]", "cond[%s].integrate_log_conditional_y" % d["c"]["cls"], val, np.array(ex))
    return ob, fails


# ------------------------------------------------------------------ feature models (RBF / squared exponential), seams
SEAMS = {}


def kf_coq(f, lifted_Dy=None):
    Dk, Dx = f["Dk"], f["Dx"]
    if f["kind"] == "lrbf":
        k = "(factor_of_measure (lrbf_kfunc LQ %d %d (lb2 %s) (lb2 %s)))" % (Dk, Dx, cmat(f["c"]), cmat(f["l"]))
    else:
        k = "(lsem_kfunc LQ %d %d (lb2 %s) (lv %s))" % (Dk, Dx, cmat([row[1:] for row in f["W"]]), cvec([row[0] for row in f["W"]]))
    return k if lifted_Dy is None else "(lift_general %d %s)" % (lifted_Dy, k)


def coq_feat(d):
    f = d["f"]; Dx, Dy, Dk = f["Dx"], f["Dy"], f["Dk"]
    seam = SEAMS[c16.gtlib_fp(d)]
    M = "(lm %s)" % cmat(f["M"]); b = "(lv %s)" % cvec(f["b"])
    Lam = "(lm %s)" % cmat(lin.finv(f["Sig"])); hS = "(lh %s 0%%N)" % cvec([lin.fdet(f["Sig"])])
    if d["scn"] == "feat_log_cond":
        R = d["q"]["R"]; q = lin.coq_pdfv(d["q"])
        per = []
        for r in range(R):
            per.append("dumpL (feat_log_cond %d %d %d %s %s %s %s (getmu qq %d) (getS qq %d) (lv %s) (fun j => getmu pk (%d * %d + j)%%N) (lm %s))" % (
                Dx, Dk, Dy, M, b, Lam, hS, r, r, cvec(seam["Ek"][r]), r, Dk, cmat(seam["Ekk"][r])))
        return "let qq := %s in let pk := prepare (multiply true qq %s) in %s" % (q, kf_coq(f, Dy), " ++ ".join(per))
    p = lin.coq_pdfv(f["p"]); R = f["R"]; N = len(d["ys"])
    per = []
    for k in range(max(R, N)):
        r = 0 if R == 1 else k; n = 0 if N == 1 else k
        per.append("dumpL (feat_log_cond_y %d %d %d %s %s %s %s (getmu pp %d) (getS pp %d) (lv %s) (fun j => getmu pk (%d * %d + j)%%N) (lm %s) (lv %s))" % (
            Dx, Dk, Dy, M, b, Lam, hS, r, r, cvec(seam["Ek"][r]), r, Dk, cmat(seam["Ekk"][r]), cvec(d["ys"][n])))
    return "let pp := %s in let pk := prepare (multiply true pp %s) in %s" % (p, kf_coq(f), " ++ ".join(per))


def _other_calls(c, p, ys, ckw):
    """further requests to the same conditional object between the creation of a callable and its use: another p(x), with
    and without y (the returned function must keep the p(x) it was made for)"""
    I = gtlib.impl()
    p2 = I["pdf"].GaussianPDF(Sigma=2.0 * p.Sigma, mu=p.mu + 1.0)
    c.integrate_log_conditional_y(p2, **ckw)
    c.integrate_log_conditional_y(p2, y=ys + 0.5, **ckw)


def run_feat(d, ob, fails):
    import numpy as np
    I = gtlib.impl(); jnp = I["jnp"]
    f = d["f"]; Dx, Dy, Dk = f["Dx"], f["Dy"], f["Dk"]
    cnd, p_own = c16.build(f)
    M = gtlib.fl(f["M"]); bb = gtlib.fl(f["b"]); Sy = gtlib.fl(f["Sig"]); Ly = np.linalg.inv(Sy)
    const = -0.5 * (Dy * math.log(2 * math.pi) + np.linalg.slogdet(Sy)[1])
    def feat(X):    # conditional mean M [x; k(x)] + b at the points X, by the object's own condition_on_x
        return np.asarray(cnd.condition_on_x(jnp.array(X)).mu, dtype=float)
    if d["scn"] == "feat_log_cond":
        q = lin.impl_pdfv(d["q"]); R = d["q"]["R"]
        px = q.get_marginal(jnp.arange(Dy, Dy + Dx))
        pk = px.multiply(cnd.k_func, update_full=True); pkk = pk.multiply(cnd.k_func, update_full=True)
        Ek = np.exp(np.asarray(pk.log_integral())).reshape(R, Dk); Ekk = np.exp(np.asarray(pkk.log_integral())).reshape(R, Dk, Dk)
        SEAMS[c16.gtlib_fp(d)] = dict(Ek=c16.fr(Ek), Ekk=c16.fr(Ekk))
        val = np.asarray(cnd.integrate_log_conditional(q), dtype=float)
        ob.add("E_q[ln p(y|x)]", val)
        ex = []
        for r in range(R):
            mq = gtlib.fl(d["q"]["mu"][r]); Sq = gtlib.fl(d["q"]["Sig"][r])
            my, mx = mq[:Dy], mq[Dy:]; Syy, Syx, Sxx = Sq[:Dy, :Dy], Sq[:Dy, Dy:], Sq[Dy:, Dy:]
            G = Syx @ np.linalg.inv(Sxx); Cc = Syy - G @ Syx.T
            X, w = (c16.gl_nodes_1d(mx[0], math.sqrt(Sxx[0, 0]), []) if Dx == 1 else c16.gh_nodes(mx, Sxx, 110))
            res = (my[None] + (X - mx[None]) @ G.T) - feat(X)
            ex.append(float(w @ (-0.5 * (np.trace(Ly @ Cc) + np.einsum("ni,ij,nj->n", res, Ly, res)))) + const)
        lin.chk(fails, ["C14"], "integrate_log_conditional = E_q[ln p(y|x)] (feature model)", "%s.integrate_log_conditional" % f["kind"], val, np.array(ex), tol=1e-7)
        return ob, fails
    p = p_own; R = f["R"]; N = len(d["ys"])
    pk = p.multiply(cnd.k_func, update_full=True); pkk = pk.multiply(cnd.k_func, update_full=True)
    Ek = np.exp(np.asarray(pk.log_integral())).reshape(R, Dk); Ekk = np.exp(np.asarray(pkk.log_integral())).reshape(R, Dk, Dk)
    SEAMS[c16.gtlib_fp(d)] = dict(Ek=c16.fr(Ek), Ekk=c16.fr(Ekk))
    ys = jarr(d["ys"])
    if d["callable"]:
        fn = cnd.integrate_log_conditional_y(p)
        _other_calls(cnd, p, ys, {})         # the callable is held while the same conditional serves other requests
        val = np.asarray(fn(ys), dtype=float)
    else:
        val = np.asarray(cnd.integrate_log_conditional_y(p, y=ys), dtype=float)
    ob.add("E_p(x)[ln p(y|x)]", val)
    ex = []
    for k in range(max(R, N)):
        r = 0 if R == 1 else k; n = 0 if N == 1 else k
        mx = gtlib.fl(f["p"]["mu"][r]); Sxx = gtlib.fl(f["p"]["Sig"][r]); y = gtlib.fl(d["ys"][n])
        X, w = (c16.gl_nodes_1d(mx[0], math.sqrt(Sxx[0, 0]), []) if Dx == 1 else c16.gh_nodes(mx, Sxx, 110))
        res = y[None] - feat(X)
        ex.append(float(w @ (-0.5 * np.einsum("ni,ij,nj->n", res, Ly, res))) + const)
    lin.chk(fails, ["C14"], "integrate_log_conditional_y = E_p(x)[ln p(y|x)] (feature model)", "%s.integrate_log_conditional_y" % f["kind"], val, np.array(ex), tol=1e-7)
    return ob, fails


# objects with a history (lin.with_history): dry run on the before-state objects, in-place mutation, observed run
run_impl = lin.with_history(run_impl)
