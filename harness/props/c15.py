# C15: specialised representations agree with the general one.
import copy
from fractions import Fraction as Fr
from .. import gtlib
from . import common as C, lin, c01

PROP = "C15"
PROPS_FILE = "props/C15.v"
RULE = ("cases = every specialised class {rank-one / linear / constant factor; diagonal measure, density; diagonal, identity, "
        "identity-diagonal, NN-controlled conditional} x every operation it supports {multiply, hadamard, product, evaluate; "
        "constructor, integrals, normalise, marginal; condition_on_x, set_y, joint / marginal / conditional transformation, "
        "entropies} x shapes and batch layouts; each case is run on the specialised object AND on the general full-matrix "
        "object built from the same parameters; non-trivial = more than one scalar dimension; distinct = SHA1 of the input")
EXPLANATION = ("oracle: every public observation of the specialised object equals that of ConjugateFactor / GaussianMeasure / "
               "GaussianPDF / ConditionalGaussianPDF(M=I or M(u), b=0 or b(u)) on the implementation; the specialised result is "
               "also compared with the model at Qc (which has the per-kind code paths: Sherman-Morrison, covariance reuse, "
               "diagonal inversion, identity mean)")


def general_of(d):
    """the same case with every specialised operand replaced by its general counterpart"""
    g = copy.deepcopy(d)
    if d.get("scn") == "binop" or d.get("scn") in ("uproduct", "fproduct"):
        f = g.get("f")
        if f is not None and f["kind"] in ("onerank", "linear", "constant"):
            R, D = f["R"], f["D"]
            if f["kind"] == "onerank":
                Lam = [[[f["g"][r] * f["v"][r][i] * f["v"][r][j] for j in range(D)] for i in range(D)] for r in range(R)]
                nu = f["nu"]
            elif f["kind"] == "linear":
                Lam = [[[Fr(0)] * D for _ in range(D)] for _ in range(R)]; nu = f["nu"]
            else:
                Lam = [[[Fr(0)] * D for _ in range(D)] for _ in range(R)]; nu = [[Fr(0)] * D for _ in range(R)]
            g["f"] = dict(kind="general", R=R, D=D, Lam=Lam, nu=nu, lb=f["lb"])
        if "u" in g and g["u"].get("diag"):
            g["u"]["diag"] = False
        return g
    for k in ("p", "u", "p0", "p1"):
        if k in g and g[k].get("diag"):
            g[k]["diag"] = False
    if "c" in g and g["c"]["cls"] != "full":
        c = g["c"]
        R = lin.cond_R(c)
        Mb = [lin.cond_Mb(c, r) for r in range(R)]
        g["c"] = dict(cls="full", R=R, Dy=c["Dy"], Dx=c["Dx"], ctor=c["ctor"], M=[m for m, _ in Mb], b=[b for _, b in Mb],
                      Sig=[lin.cond_Sig(c, r) for r in range(R)])
    return g


def is_c01(d):
    return d.get("scn") in ("binop", "uproduct", "fproduct")


def gen_descs(g, tier):
    q = tier == "quick"
    out = []
    # factors: the C01 design restricted to the specialised kinds, plus diagonal measures
    for kind in ("onerank", "linear", "constant"):
        for op in ("multiply", "hadamard"):
            for upd in (False, True):
                for cached in (False, True):
                    for _ in range(1 if q else 12):
                        # both batches > 1 (layouts of the cached arrays only matter then); D random
                        R1, R2, D = g.randint(2, 3), g.randint(2, 3), g.randint(1, 3)
                        Rf, Ru = R2, R1
                        if op == "hadamard":
                            Rf = g.choice([1, R1]); Ru = R1
                        out.append(dict(scn="binop", kind=kind, op=op, upd=upd, cached=cached,
                                        u=C.gen_measure(g, Ru, D, diag=(g.randint(0, 3) == 0)), f=C.gen_factor(g, kind, Rf, D), xs=g.mat(3, D)))
                        C.neg_weights(g, out[-1]["u"], out[-1]["f"])
        out.append(dict(scn="fproduct", f=C.gen_factor(g, kind, g.randint(1, 3), g.randint(1, 3)), xs=None))
        out[-1]["xs"] = g.mat(3, out[-1]["f"]["D"])
    # diagonal densities in high dimension (determinant outside the float range)
    for Dh in ((40,) if q else (40, 45, 50)):
        out.append(lin.gen_scn(g, "ctor", R=1, D=Dh, diag=True, highdim=Dh))
    # diagonal measures and densities
    for _ in range(3 if q else 40):
        R, D = g.randint(1, 3), g.randint(1, 4)
        out.append(lin.gen_scn(g, "ctor", R=R, D=D, diag=True))
        out.append(lin.gen_scn(g, "measure_int", R=R, D=D, diag=True))
        out.append(lin.gen_scn(g, "marginal", R=R, D=max(D, 2), diag=True))
    # conditionals
    for (cls, Rc, Rx, Dy, Dx) in lin.shapes_cond(g, tier, 0 if q else 300):
        if cls == "full":
            continue
        if q and (Dy, Dx) == (2, 1) and cls != "diag":
            continue
        for scn in ("cond_x", "set_y", "joint", "marg_t", "cond_t", "entropies"):
            if q and scn in ("cond_x", "entropies") and Rx > 1:
                continue
            out.append(lin.gen_scn(g, scn, cls=cls, Rc=Rc, Rx=Rx, Dy=Dy, Dx=Dx))
    return [C.J(d) for d in out]


def search_descs(g, failing, tier):
    out = []
    for d in failing[:8]:
        if "c" in d:
            for (Rc, Rx) in [(1, 1), (1, 2), (2, 1)]:
                out.append(C.J(lin.gen_scn(g, d["scn"], cls=d["c"]["cls"], Rc=Rc, Rx=Rx, Dy=1, Dx=1)))
    return out


def coq_term(d):
    return c01.coq_term(d) if is_c01(d) else lin.coq_term(d)


def alt_terms(d):
    return [] if is_c01(d) else lin.alt_terms(d)


def hist(d):
    return c01.hist(d) if is_c01(d) else lin.hist(d)


def nontrivial(d):
    return c01.nontrivial(d) if is_c01(d) else lin.nontrivial(d)


def scenario(d):
    return ("c01:" + c01.scenario(d)) if is_c01(d) else lin.scenario(d)


def run_impl(d):
    import numpy as np
    run = c01.run_impl if is_c01(d) else lin.run_impl
    ob, fails_s = run(d)
    dg = C.J(general_of(C.U(d)))
    obg, _ = run(dg)
    fails = []
    site = scenario(d)
    gi = {n: a for n, a, _ in obg.items}
    for n, a, _ in ob.items:
        if n.endswith("?") or n in ("R", "D"):
            continue        # which caches are populated may legitimately differ (cost only), values may not
        b = gi.get(n)
        if b is None:
            continue
        if not gtlib.close(a, b):
            fails.append(lin.fail(["C15"], "specialised != general: %s" % n, site, relerr=gtlib.relerr(a, b)))
    # plus the oracle failures of the specialised run that concern C15 itself
    fails += [f for f in fails_s if "props" in f and "C15" in f["props"]]
    dU = C.U(d)
    if dU.get("scn") == "binop" and dU["f"]["kind"] in ("onerank", "linear", "constant") and dU["f"]["R"] in (1, dU["u"]["R"]):
        # one more operation the factor kinds support: the expected log-factor under the (un-normalised) measure
        gU = general_of(dU)
        vals = []
        for dd in (dU, gU):
            u = C.impl_measure(dd["u"]); f = C.impl_factor(dd["f"])
            vals.append(np.asarray(u.integrate("log u(x)", factor=f), dtype=float))
        if vals[0].shape != vals[1].shape or not gtlib.close(vals[0], vals[1]):
            fails.append(lin.fail(["C15"], "specialised != general: integrate('log u(x)', factor=f)", site,
                                  relerr=(gtlib.relerr(vals[0], vals[1]) if vals[0].shape == vals[1].shape else float("inf"))))
    return ob, fails


# objects with a history (lin.with_history): dry run on the before-state objects, in-place mutation, observed run
run_impl = lin.with_history(run_impl)
