# C16: moment matching of approximate conditionals is exact.
import math
from fractions import Fraction as Fr
from .. import gtlib
from ..gtlib import cq, cvec, cmat, cb3, cbool, cseq, jarr, Obs
from . import common as C, lin

PROP = "C16"
TRUSTED_EXTRA = ["standard-library axioms of the classical real numbers used by trunc/C16R*.v (Reals / Coquelicot): ClassicalDedekindReals.sig_not_dec, sig_forall_dec, FunctionalExtensionality.functional_extensionality_dep, Classical_Prop.classic",
                 "seams: kernel expectations and expected link values are read from the implementation's own public calls and converted exactly"]
WIDEN_MAX = 60          # extra thorough-generator cases when the anchored sources have drifted (harness/drift.py)
PROPS_FILE = ["props/C16.v", "trunc/C16R.v", "trunc/C20_inst.v", "props/GI4.v", "props/GI7.v"]
RULE = ("cases = {linear+RBF features, linear+squared-exponential features, heteroscedastic noise with exp / cosh-1 / step / "
        "rectified-linear link} x Dx in 1..3, Dy in 1..2, number of kernels / noise units in 1..2, Da in {Dy, Dy+1}, "
        "arbitrary rational weights, centres, length scales and NON-ZERO offsets, Gaussian p(x) with R in 1..2 (feature "
        "models); half of the heteroscedastic objects were built with another A resp. (M, W) and brought to the case's parameters by "
        "obj.replace(...); non-trivial = Dx*Dy*Dk > 1; distinct = SHA1 of the input")
EXPLANATION = ("model Approx.v: kernel construction + products + log-integrals (stage 1, exact in the log domain) and the "
               "moment assembly / joint / conditional (stage 2, exact linear algebra on the kernel expectations taken from the "
               "implementation's own public calls, converted exactly) vs marginal / joint / conditional transformation; "
               "oracle: moments of condition_on_x(x) integrated against p(x) by converged Gauss-Hermite quadrature (smooth, "
               "Dx<=2) and piecewise adaptive quadrature (step / rectified links, Dx=1); unit height of the kernels")
KINDS = ["lrbf", "lsem", "exp", "coshm1", "heaviside", "relu"]
SEAMS = {}


def gen_case(g, kind, Dx, Dy, Dk, R=1, Da=None):
    d = dict(kind=kind, Dx=Dx, Dy=Dy, Dk=Dk, R=R, p=lin.gen_pdfv(g, R, Dx, ctor="Sigma"))
    if kind in ("lrbf", "lsem"):
        d.update(M=g.mat(Dy, Dx + Dk), b=g.vec(Dy), Sig=g.spd(Dy))
        if g.randint(0, 1) == 0:
            d["Sig0"] = g.spd(Dy)          # built with another noise covariance, then update_Sigma (lin.with_history)
        elif g.randint(0, 1) == 0:
            d["np_params"] = True; d["twice"] = True      # numpy parameters, every call made twice on the same object
        else:
            d["fctor"] = g.choice(["Lambda", "Sigma+Lambda"])   # the noise given by its precision (alone / together with Sigma)
        if kind == "lrbf":
            d.update(c=g.mat(Dk, Dx), l=[[(g.qpos() if Dx == 1 else Fr(g.randint(2, 6), 2)) for _ in range(Dx)] for _ in range(Dk)])
        else:
            d.update(W=[[g.qnz()] + [g.q(lo=-2, hi=2, dens=(1, 2)) for _ in range(Dx)] for _ in range(Dk)])
            for row in d["W"]:
                if all(v == 0 for v in row[1:]):
                    row[1] = Fr(1)
    else:
        Da = Da or Dy
        d["R"] = 1; d["p"] = lin.gen_pdfv(g, 1, Dx, ctor="Sigma")
        def genA():
            while True:
                A = [[Fr(g.randint(-2, 2), g.choice((1, 2))) for _ in range(Da)] for _ in range(Dy)]
                AAt = [[sum(A[i][k] * A[j][k] for k in range(Da)) for j in range(Dy)] for i in range(Dy)]
                import numpy as np
                if lin.fdet(AAt) > 0 and np.linalg.cond(gtlib.fl(AAt)) < 1e3:
                    return A
        A = genA()
        k = g.randint(0, 3)
        if k == 0:
            d["first"] = dict(A=genA())         # built with another noise mixing matrix, then obj.replace(A=A)
        elif k == 1:
            d["first"] = dict(M=g.mat(Dy, Dx), W=[[g.qnz(lo=-2, hi=2, dens=(2, 4))] + [Fr(1, 2)] * Dx for _ in range(Dk)])   # then replace(M=, W=)
        # W: offsets non-zero, input weights moderate (links stay O(1))
        W = [[g.qnz(lo=-2, hi=2, dens=(2, 4))] + [g.q(lo=-2, hi=2, dens=(2, 4)) for _ in range(Dx)] for _ in range(Dk)]
        for row in W:
            if all(v == 0 for v in row[1:]):
                row[1] = Fr(1, 2)
        d.update(Da=Da, A=A, W=W, M=g.mat(Dy, Dx), b=g.vec(Dy))
    return d


def gen_descs(g, tier):
    q = tier == "quick"
    out = []
    for kind in KINDS:
        het = kind not in ("lrbf", "lsem")
        shapes = [(1, 1, 1), (2, 1, 2), (1, 2, 1), (2, 2, 2)] + ([] if q else [(3, 2, 2), (3, 1, 1), (2, 2, 1)])
        for (Dx, Dy, Dk) in shapes:
            if het:
                for Da in (Dy, Dy + 1):
                    if Dk <= Da:
                        out.append(gen_case(g, kind, Dx, Dy, Dk, Da=Da))
            else:
                out.append(gen_case(g, kind, Dx, Dy, Dk, R=(2 if Dx < 3 and (Dx + Dy + Dk) % 2 else 1)))
    for _ in range(0 if q else 200):
        kind = g.choice(KINDS); Dy = g.randint(1, 2)
        Da = Dy + g.randint(0, 1)
        Dk = g.randint(1, 2)
        if kind not in ("lrbf", "lsem"):
            Dk = min(Dk, Da)        # the constructor accepts at most Da noise units
        out.append(gen_case(g, kind, g.randint(1, 3), Dy, Dk, R=g.randint(1, 2), Da=Da))
    return [C.J(d) for d in out]


def search_descs(g, failing, tier):
    return [C.J(gen_case(g, d["kind"], 1, 1, 1)) for d in failing[:8] for _ in range(2)]


hist = lambda d: dict(kind=d["kind"], Dx=d["Dx"], Dy=d["Dy"], Dk=d["Dk"], Da=d.get("Da"), R=d["R"], history=("update_Sigma" if d.get("Sig0") is not None else "fresh"))
nontrivial = lambda d: d["Dx"] * d["Dy"] * d["Dk"] > 1
scenario = lambda d: d["kind"]


def build(d):
    """(conditional, p(x)); a feature model with "Sig0" was built with that noise covariance and brought to d["Sig"] by
    update_Sigma -- between the dry run and the observed run when driven by lin.with_history (same Python object)"""
    I = gtlib.impl(); jnp = I["jnp"]
    from gaussian_toolbox import approximate_conditional as ac
    kind = d["kind"]
    key = ("approx", lin._fp({k: v for k, v in d.items() if k != "p"}))
    if lin._MODE[0] in ("before", "reuse") and key in lin._MEMO:
        return lin._MEMO[key], lin.impl_pdfv(d["p"])
    Sig_build = d.get("Sig0") if d.get("Sig0") is not None else d.get("Sig")
    # parameters handed over as NUMPY arrays in some cases (accepted by the library; an in-place numpy operation on them would
    # leak into the object or into the caller's arrays, which a jax array can never show)
    arr = (lambda x: gtlib.fl(x)) if d.get("np_params") else jarr
    fctor = d.get("fctor", "Sigma")
    noise = {}
    if fctor in ("Sigma", "Sigma+Lambda"):
        noise["Sigma"] = arr([Sig_build])
    if fctor in ("Lambda", "Sigma+Lambda"):
        noise["Lambda"] = arr([lin.finv(Sig_build)])
    if kind == "lrbf":
        c = ac.LRBFGaussianConditional(M=arr([d["M"]]), b=arr([d["b"]]), mu=arr(d["c"]), length_scale=arr(d["l"]), **noise)
    elif kind == "lsem":
        c = ac.LSEMGaussianConditional(M=arr([d["M"]]), b=arr([d["b"]]), W=arr(d["W"]), **noise)
    else:
        cls = dict(exp=ac.HeteroscedasticExpConditional, coshm1=ac.HeteroscedasticCoshM1Conditional,
                   heaviside=ac.HeteroscedasticHeavisideConditional, relu=ac.HeteroscedasticReLUConditional)[kind]
        first = d.get("first") or {}
        c = cls(M=jarr([first.get("M", d["M"])]), b=jarr([d["b"]]), A=jarr([first.get("A", d["A"])]), W=jarr(first.get("W", d["W"])))
        if first:
            # the usual way to exchange a parameter of these dataclass objects: every derived quantity must follow
            c = c.replace(**{k: (jarr(d[k]) if k == "W" else jarr([d[k]])) for k in first})
    if d.get("Sig0") is not None:
        mut = lambda c=c: c.update_Sigma(jarr([d["Sig"]]))
        if lin._MODE[0] == "before":
            lin._PENDING.append(mut)
        else:
            mut()
    if lin._MODE[0] == "before":
        lin._MEMO[key] = c
    return c, lin.impl_pdfv(d["p"])


def fr(a):
    import numpy as np
    a = np.asarray(a, dtype=float)
    if a.ndim == 0:
        return Fr(float(a))
    return [fr(x) for x in a]


# ------------------------------------------------------------------ quadrature oracle
def gh_nodes(mu, S, n=60, extra=None):
    """quadrature nodes / weights for N(mu, S): D = 1 Gauss-Hermite (smooth integrands only); D >= 2 a composite
    Gauss-Legendre tensor rule in whitened coordinates on [-8, 8]^D (resolves bumps much narrower than p(x))"""
    import numpy as np
    D = len(mu)
    L = np.linalg.cholesky(S)
    if D == 1:
        z, w = np.polynomial.hermite_e.hermegauss(n)
        w = w / math.sqrt(2 * math.pi)
        return (mu[None] + (L @ z[None]).T), w
    nsub, order = (32, 12) if D == 2 else (10, 6)
    zz, ww = np.polynomial.legendre.leggauss(order)
    # exponentially growing integrands exp(+-w'x) move the mass by L'w in whitened coordinates: widen the box by
    # that much per coordinate (extra) and keep the panel width
    z1s, w1s = [], []
    for i in range(D):
        hw = 8.0 + (float(extra[i]) if extra is not None else 0.0)
        ns = int(math.ceil(nsub * hw / 8.0))
        edges = np.linspace(-hw, hw, ns + 1)
        z1 = np.concatenate([0.5 * (b - a) * zz + 0.5 * (a + b) for a, b in zip(edges[:-1], edges[1:])])
        w1 = np.concatenate([0.5 * (b - a) * ww for a, b in zip(edges[:-1], edges[1:])]) * np.exp(-0.5 * z1 ** 2) / math.sqrt(2 * math.pi)
        z1s.append(z1); w1s.append(w1)
    Z = np.stack(np.meshgrid(*z1s, indexing="ij"), axis=-1).reshape(-1, D)
    Wt = np.prod(np.stack(np.meshgrid(*w1s, indexing="ij"), axis=-1).reshape(-1, D), axis=1)
    return mu[None] + Z @ L.T, Wt


def cond_moments_at(c, X):
    """mean [N,Dy] and covariance [N,Dy,Dy] of condition_on_x at the points X (the object's own p(y|x))"""
    import numpy as np
    o = c.condition_on_x(jarr(X.tolist()) if not hasattr(X, "dtype") else gtlib.impl()["jnp"].array(X))
    return np.asarray(o.mu, dtype=float), np.asarray(o.Sigma, dtype=float)


def gl_nodes_1d(m0, s, breaks, nsub=64, order=48):
    """composite Gauss-Legendre rule for the N(m0, s^2) weight on [m0-12s, m0+12s], split at the break points"""
    import numpy as np
    lo, hi = m0 - 12 * s, m0 + 12 * s
    edges = sorted(set([lo, hi] + [b for b in breaks if lo < b < hi] + list(np.linspace(lo, hi, nsub + 1))))
    z, w = np.polynomial.legendre.leggauss(order)
    xs, ws = [], []
    for a, b in zip(edges[:-1], edges[1:]):
        x = 0.5 * (b - a) * z + 0.5 * (a + b)
        xs.append(x); ws.append(0.5 * (b - a) * w * np.exp(-0.5 * ((x - m0) / s) ** 2) / (s * math.sqrt(2 * math.pi)))
    return np.concatenate(xs)[:, None], np.concatenate(ws)


def kink_nodes_2d(mu, S, w, w0, nsub=24, order=24):
    """quadrature for N(mu, S) in two dimensions for integrands with ONE kink line w'x + w0 = 0: whitened coordinates are
    rotated so that the kink is at a fixed value of the first coordinate (piecewise Gauss-Legendre, split there); the
    second coordinate gets a composite Gauss-Legendre rule"""
    import numpy as np
    L = np.linalg.cholesky(S)
    v = L.T @ w                                   # h = w'mu + w0 + v't  for x = mu + L t
    nv = float(np.linalg.norm(v))
    e1 = v / nv
    Q = np.array([e1, [-e1[1], e1[0]]])           # rows: along the kink normal, along the kink
    t_star = -(float(w @ mu) + w0) / nv           # h = 0  <=>  first rotated coordinate = t_star
    T1, W1 = gl_nodes_1d(0.0, 1.0, [t_star], nsub=nsub, order=order)
    T2, W2 = gl_nodes_1d(0.0, 1.0, [], nsub=nsub, order=order)
    A, B = np.meshgrid(T1[:, 0], T2[:, 0], indexing="ij")
    T = np.stack([A.ravel(), B.ravel()], axis=1)  # rotated whitened coordinates
    return mu[None] + (T @ Q) @ L.T, np.outer(W1, W2).ravel()


def quad_moments(d, c, r):
    """(E[y], Cov[y], Cov[y,x]) of y ~ p(y|x) p(x) by quadrature; None if no converged rule applies"""
    import numpy as np
    mu = gtlib.fl(d["p"]["mu"][r]); S = gtlib.fl(d["p"]["Sig"][r])
    Dx, Dy = d["Dx"], d["Dy"]
    smooth = d["kind"] in ("lrbf", "lsem", "exp", "coshm1")
    if Dx == 1:
        kinks = [] if smooth else [float(-row[0] / row[1]) for row in d["W"] if row[1] != 0]
        X, w = gl_nodes_1d(mu[0], math.sqrt(S[0, 0]), kinks)
    elif smooth and Dx == 2:
        extra = None
        if d["kind"] in ("exp", "coshm1"):
            Lc = np.linalg.cholesky(S)
            extra = np.max(np.abs(np.array([Lc.T @ gtlib.fl(row[1:]) for row in d["W"]])), axis=0)
        X, w = gh_nodes(mu, S, 110, extra=extra)
    elif Dx == 2 and d["Dk"] == 1 and any(v != 0 for v in d["W"][0][1:]):
        # step / rectified-linear link with one noise unit: a single kink line
        X, w = kink_nodes_2d(mu, S, gtlib.fl(d["W"][0][1:]), float(d["W"][0][0]))
    else:
        return None
    m, Sg = cond_moments_at(c, X)
    Ey = w @ m
    Eyy = np.einsum("n,nij->ij", w, Sg + m[:, :, None] * m[:, None, :])
    Eyx = np.einsum("n,ni,nj->ij", w, m, X)
    return Ey, Eyy - np.outer(Ey, Ey), Eyx - np.outer(Ey, mu)


def _decoy_instance(d, p):
    """ANOTHER instance of the same model class, other parameters, is asked for the three transformations of the VERY SAME
    density object p first: state shared between instances (class- or module-level caches keyed by the argument's identity)
    must not leak into the instance under test"""
    one = Fr(1)
    shift = lambda x: [shift(v) for v in x] if isinstance(x, list) else x + one
    d2 = {k: v for k, v in d.items() if k not in ("Sig0", "np_params", "twice", "first")}
    for k in ("M", "b", "c", "W"):
        if k in d2 and d2[k] is not None:
            d2[k] = shift(d2[k])
    try:
        mode = lin._MODE[0]; lin._MODE[0] = None       # a fresh object, outside the object-history bookkeeping
        try:
            c2, _ = build(d2)
        finally:
            lin._MODE[0] = mode
        c2.affine_marginal_transformation(p); c2.affine_joint_transformation(p); c2.affine_conditional_transformation(p)
    except Exception:
        pass


# ------------------------------------------------------------------ implementation
def run_impl(d):
    import numpy as np
    d = C.U(d)
    I = gtlib.impl(); jnp = I["jnp"]
    ob = Obs(); fails = []
    c, p = build(d)
    kind = d["kind"]; R, Dx, Dy, Dk = d["R"], d["Dx"], d["Dy"], d["Dk"]
    seam = {}
    if kind in ("lrbf", "lsem"):
        # kernels have unit height: value one at the centre / on the hyperplane where the argument vanishes
        if kind == "lrbf":
            at = np.asarray(c.k_func.evaluate_ln(jarr(d["c"])))
            lin.chk(fails, ["C16"], "RBF kernel has value one at its centre", "LRBF.k_func", np.diagonal(at), np.zeros(Dk))
        else:
            pts = []
            for row in d["W"]:
                w0, w = row[0], row[1:]
                n2 = sum(v * v for v in w)
                pts.append([w0 * v / n2 for v in w])           # a point with w'x = w0
            at = np.asarray(c.k_func.evaluate_ln(jarr(pts)))
            lin.chk(fails, ["C16"], "squared-exponential kernel has value one where its argument vanishes", "LSEM.k_func", np.diagonal(at), np.zeros(Dk))
        # stage 1 (log domain): products of p(x) with the kernels
        pk = p.multiply(c.k_func, update_full=True)
        pkk = pk.multiply(c.k_func, update_full=True)
        li_k = np.asarray(pk.log_integral()); pk.integrate(); mu_k = np.asarray(pk.mu)
        li_kk = np.asarray(pkk.log_integral())
        ob.add("ln E[k]", li_k); ob.add("mean of p*k", mu_k); ob.add("ln E[k k']", li_kk)
        Ek = np.exp(li_k).reshape(R, Dk); Ekx = Ek[:, :, None] * mu_k.reshape(R, Dk, Dx); Ekk = np.exp(li_kk).reshape(R, Dk, Dk)
        seam = dict(Ek=fr(Ek), Ekx=fr(Ekx), Ekk=fr(Ekk))
    else:
        Dint = np.asarray(c._integrate_noise_diagonal(p), dtype=float).reshape(Dk)
        seam = dict(Dint=fr(Dint))
        if kind in ("exp", "coshm1"):
            F = I["factor"]
            w = jarr([row[1:] for row in d["W"]]); w0 = jarr([row[0] for row in d["W"]])
            lp = np.asarray(p.multiply(F.LinearFactor(nu=w, ln_beta=w0), update_full=True).log_integral())
            ob.add("ln E[exp(h)]", lp)
            if kind == "coshm1":
                lm = np.asarray(p.multiply(F.LinearFactor(nu=-w, ln_beta=-w0), update_full=True).log_integral())
                ob.add("ln E[exp(-h)]", lm)
                lin.chk(fails, ["C16"], "expected cosh-1 noise", "HeteroscedasticCoshM1._integrate_noise_diagonal", Dint, 0.5 * (np.exp(lp) + np.exp(lm)) - 1.0)
            else:
                lin.chk(fails, ["C16"], "expected exp noise", "HeteroscedasticExp._integrate_noise_diagonal", Dint, np.exp(lp))
    SEAMS[gtlib_fp(d)] = seam
    _decoy_instance(d, p)          # another instance of the same class serves the very same p(x) object first
    pm = c.affine_marginal_transformation(p)
    pj = c.affine_joint_transformation(p)
    pc = c.affine_conditional_transformation(p)
    ob.add("marginal.mu", pm.mu); ob.add("marginal.Sigma", pm.Sigma)
    ob.add("joint.mu", pj.mu); ob.add("joint.Sigma", pj.Sigma)
    ob.add("conditional.M", pc.M); ob.add("conditional.b", pc.b); ob.add("conditional.Sigma", pc.Sigma)
    # oracle: quadrature moments of condition_on_x
    for r in range(R):
        qm = quad_moments(d, c, r)
        if qm is None:
            continue
        Ey, Cy, Cyx = qm
        site = "%s.affine_*_transformation" % kind
        tol = 1e-7
        lin.chk(fails, ["C16"], "mean of y under p(y|x)p(x)", site, np.asarray(pm.mu)[r], Ey, tol=tol)
        lin.chk(fails, ["C16"], "covariance of y under p(y|x)p(x)", site, np.asarray(pm.Sigma)[r], Cy, tol=tol)
        lin.chk(fails, ["C16"], "joint: y block equals the marginal", site, np.asarray(pj.Sigma)[r][Dx:, Dx:], Cy, tol=tol)
        lin.chk(fails, ["C16"], "joint: cross-covariance of y and x", site, np.asarray(pj.Sigma)[r][Dx:, :Dx], Cyx, tol=tol)
        lin.chk(fails, ["C16"], "joint: moments of p(x)", site, np.asarray(pj.Sigma)[r][:Dx, :Dx], gtlib.fl(d["p"]["Sig"][r]))
        mx = gtlib.fl(d["p"]["mu"][r]); Sx = gtlib.fl(d["p"]["Sig"][r])
        Mn = Cyx.T @ np.linalg.inv(Cy)
        lin.chk(fails, ["C16"], "conditional transformation: gain of the Gaussian conditional of the joint", site, np.asarray(pc.M)[r], Mn, tol=1e-6)
        lin.chk(fails, ["C16"], "conditional transformation: offset", site, np.asarray(pc.b)[r], mx - Mn @ Ey, tol=1e-6)
        lin.chk(fails, ["C16"], "conditional transformation: covariance", site, np.asarray(pc.Sigma)[r], Sx - Mn @ Cyx, tol=1e-6)
    return ob, fails


def gtlib_fp(d):
    import hashlib, json
    return hashlib.sha1(json.dumps(C.J(d), sort_keys=True).encode()).hexdigest()


# ------------------------------------------------------------------ Coq term
def coq_term(d):
    d = C.U(d)
    seam = SEAMS.get(gtlib_fp(d))
    if seam is None:
        raise RuntimeError("seam values missing: run_impl must be called first")
    kind = d["kind"]; R, Dx, Dy, Dk = d["R"], d["Dx"], d["Dy"], d["Dk"]
    p = lin.coq_pdfv(d["p"])
    parts = []
    M = "(lm %s)" % cmat(d["M"]); b = "(lv %s)" % cvec(d["b"])
    if kind in ("lrbf", "lsem"):
        if kind == "lrbf":
            kf = "(factor_of_measure (lrbf_kfunc LQ %d %d (lb2 %s) (lb2 %s)))" % (Dk, Dx, cmat(d["c"]), cmat(d["l"]))
        else:
            kf = "(lsem_kfunc LQ %d %d (lb2 %s) (lv %s))" % (Dk, Dx, cmat([row[1:] for row in d["W"]]), cvec([row[0] for row in d["W"]]))
        parts.append("(let pk := multiply true %s %s in let pkk := multiply true pk %s in "
                     "dL %d (log_integral pk).2 ++ dB2 %d %d (getmu (prepare pk)) ++ dL %d (log_integral pkk).2)"
                     % (p, kf, kf, R * Dk, R * Dk, Dx, R * Dk * Dk))
        Sig = "(lm %s)" % cmat(d["Sig"])
        def per(r, f, dump):
            args = "%d %d %d %s %s %s (getmu pp %d) (E_xxT (getmu pp %d) (getS pp %d)) (lv %s) (lm %s) (lm %s) (getmu pp %d) (getS pp %d)" % (
                Dx, Dk, Dy, M, b, Sig, r, r, r, cvec(seam["Ek"][r]), cmat(seam["Ekx"][r]), cmat(seam["Ekk"][r]), r, r)
            return "%s (%s %s)" % (dump, f, args)
        # argument orders follow Section Feature: Dx Dk Dy M b Sig Ex Exx Ek Ekx Ekk mux Sx (unused ones dropped by Coq)
        def call(name, r, dump, uses):
            amap = dict(Dx=str(Dx), Dk=str(Dk), Dy=str(Dy), M=M, b=b, Sig=Sig, Ex="(getmu pp %d)" % r,
                        Exx="(E_xxT (getmu pp %d) (getS pp %d))" % (r, r), Ek="(lv %s)" % cvec(seam["Ek"][r]),
                        Ekx="(lm %s)" % cmat(seam["Ekx"][r]), Ekk="(lm %s)" % cmat(seam["Ekk"][r]),
                        mux="(getmu pp %d)" % r, Sx="(getS pp %d)" % r)
            return "%s (%s %s)" % (dump, name, " ".join(amap[u] for u in uses))
        U_mu = ["Dx", "Dk", "M", "b", "Ex", "Ek"]
        U_Sig = ["Dx", "Dk", "Dy", "M", "b", "Sig", "Ex", "Exx", "Ek", "Ekx", "Ekk"]
        U_cov = ["Dx", "Dk", "M", "b", "Ex", "Exx", "Ek", "Ekx", "mux"]
        st2 = []
        st2.append(" ++ ".join(call("fm_mu", r, "dV %d" % Dy, U_mu) for r in range(R)))
        st2.append(" ++ ".join(call("fm_Sigma", r, "dM %d %d" % (Dy, Dy), U_Sig) for r in range(R)))
        st2.append(" ++ ".join(call("fm_joint_mu", r, "dV %d" % (Dx + Dy), U_mu + ["mux"]) for r in range(R)))
        st2.append(" ++ ".join(call("fm_joint_Sigma", r, "dM %d %d" % (Dx + Dy, Dx + Dy), U_Sig + ["mux", "Sx"]) for r in range(R)))
        st2.append(" ++ ".join(call("fm_cond_M", r, "dM %d %d" % (Dx, Dy), U_Sig + ["mux"]) for r in range(R)))
        st2.append(" ++ ".join(call("fm_cond_b", r, "dV %d" % Dx, U_Sig + ["mux"]) for r in range(R)))
        st2.append(" ++ ".join(call("fm_cond_Sigma", r, "dM %d %d" % (Dx, Dx), U_Sig + ["mux", "Sx"]) for r in range(R)))
        parts.append("(let pp := %s in %s)" % (p, " ++ ".join(st2)))
        return " ++ ".join(parts)
    # heteroscedastic
    Da = d["Da"]
    A = "(lm %s)" % cmat(d["A"])
    w = cmat([row[1:] for row in d["W"]]); w0 = cvec([row[0] for row in d["W"]])
    if kind in ("exp", "coshm1"):
        parts.append("dL %d (log_integral (multiply true %s (mk_linear %d %d (lb2 %s) (ll %s)))).2" % (Dk, p, Dk, Dx, w, w0))
        if kind == "coshm1":
            wn = cmat([[-v for v in row[1:]] for row in d["W"]]); w0n = cvec([-row[0] for row in d["W"]])
            parts.append("dL %d (log_integral (multiply true %s (mk_linear %d %d (lb2 %s) (ll %s)))).2" % (Dk, p, Dk, Dx, wn, w0n))
    Dint = "(lv %s)" % cvec(seam["Dint"])
    base = "%d %d %d" % (Dy, Da, Dk)
    H = lambda name, extra: "(%s %s)" % (name, extra)
    mux, Sx = "(getmu pp 0)", "(getS pp 0)"
    st2 = [
        "dV %d (het_mu %d %s %s %s)" % (Dy, Dx, M, b, mux),
        "dM %d %d (het_Sigma_y %d %d %d %d %s %s %s %s %s %s)" % (Dy, Dy, Dy, Da, Dk, Dx, A, M, b, mux, Sx, Dint),
        "dV %d (vcat %d %s (het_mu %d %s %s %s))" % (Dx + Dy, Dx, mux, Dx, M, b, mux),
        "dM %d %d (het_joint_Sigma %d %d %d %d %s %s %s %s %s %s)" % (Dx + Dy, Dx + Dy, Dy, Da, Dk, Dx, A, M, b, mux, Sx, Dint),
        "dM %d %d (het_cond_M %d %d %d %d %s %s %s %s %s %s)" % (Dx, Dy, Dy, Da, Dk, Dx, A, M, b, mux, Sx, Dint),
        "dV %d (het_cond_b %d %d %d %d %s %s %s %s %s %s)" % (Dx, Dy, Da, Dk, Dx, A, M, b, mux, Sx, Dint),
        "dM %d %d (het_cond_Sigma %d %d %d %d %s %s %s %s %s %s)" % (Dx, Dx, Dy, Da, Dk, Dx, A, M, b, mux, Sx, Dint),
    ]
    parts.append("(let pp := %s in %s)" % (p, " ++ ".join(st2)))
    return " ++ ".join(parts)
