# C17: heteroscedastic conditionals: coherent p(y|x) and valid lower bounds.
import math
from fractions import Fraction as Fr
from .. import gtlib
from ..gtlib import cq, cvec, cmat, cb3, cbool, cseq, jarr, Obs
from . import common as C, lin, c16

PROP = "C17"
TRUSTED_EXTRA = ["standard-library axioms of the classical real numbers used by trunc/HetBoundR.v, C17R.v (Reals / Coquelicot): ClassicalDedekindReals.sig_not_dec, sig_forall_dec, FunctionalExtensionality.functional_extensionality_dep, Classical_Prop.classic",
                 "seams: link values and the variational parameters omega_star / omega_dagger are read from the implementation (private methods _get_omega_star, _get_omega_dagger, _lower_bound_integrals, k_func) and converted exactly; ln cosh / tanh of them are computed in float64 by the harness",
                 "the step from the pointwise bound (theorem) to the expectation is monotonicity of the Gaussian integral: not formalised (no multivariate integration library); quadrature oracle"]
WIDEN_MAX = 60          # extra thorough-generator cases when the anchored sources have drifted (harness/drift.py)
PROPS_FILE = ["props/C17.v", "trunc/C17R.v", "trunc/C17M.v", "props/GI6.v"]
IMPORTS = "HetBound"
RULE = ("cases = four links {exp, cosh-1, step, rectified linear} x Dx in 1..2, Dy in 1..2, Da in {Dy, Dy+1}, Dk in 1..2, "
        "non-zero offsets, weight scales {1, 1e-1, 1e-2, 0}; half of the objects built with another A resp. (M, W) then obj.replace(...); (a) condition_on_x at 3 points; (b) "
        "integrate_log_conditional_y for one observation with one prior component and N observations paired with N prior "
        "components, compared with the true expectation of ln p(y|x) by quadrature (piecewise Gauss-Legendre, Dx=1; "
        "Gauss-Hermite, Dx=2, smooth links); non-trivial = Dx*Dy*Dk > 1 or Da > Dy; distinct = SHA1 of the input")
EXPLANATION = ("model Approx.v het_condition_on_x (Sigma(x) = AA' + A_k diag(link) A_k', the code's Woodbury shortcut and "
               "log-determinant) at Qc on the link values the implementation itself returns (converted exactly), vs "
               "condition_on_x; repaired variant (true inverse) accepted instead where it agrees; oracle: numpy inverse / "
               "slogdet of the independent Sigma(x); the variational bounds are NOT modelled: lb <= true expectation "
               "(equality for the step link), decay ratio of the gap and zero gap at zero weights are checked on the "
               "implementation against quadrature only")
KEY_PREC = "hetero-woodbury-Da>Dy"
KEY_BOUND = "hetero-bound-Da>Dy"
SEAMS = {}
LINKS = ["exp", "coshm1", "heaviside", "relu"]


def link_np(kind, h):
    import numpy as np
    return dict(exp=np.exp, coshm1=lambda t: np.cosh(t) - 1.0, heaviside=lambda t: (t >= 0).astype(float),
                relu=lambda t: np.maximum(t, 0.0))[kind](h)


def gen_case(g, kind, Dx, Dy, Dk, Da, scn, scale=Fr(1), N=1):
    d = c16.gen_case(g, kind, Dx, Dy, Dk, Da=Da)
    d["scn"] = scn
    d["scale"] = scale
    # input weights scaled (offset kept): the homoscedastic limit is scale -> 0
    d["W"] = [[row[0]] + [v * scale for v in row[1:]] for row in d["W"]]
    if scn == "cond_x":
        d["xs"] = g.mat(3, Dx)
    else:
        d["N"] = N
        d["p"] = lin.gen_pdfv(g, N, Dx, ctor="Sigma")
        d["R"] = N
        d["ys"] = g.mat(N, Dy)
    return d


def gen_descs(g, tier):
    q = tier == "quick"
    out = []
    for kind in LINKS:
        for (Dx, Dy, Dk) in [(1, 1, 1), (2, 2, 2), (1, 2, 1)] + ([] if q else [(2, 1, 1), (3, 2, 2)]):
            for Da in (Dy, Dy + 1):
                out.append(gen_case(g, kind, Dx, Dy, Dk, Da, "cond_x"))
        # bounds: Da = Dy and Da > Dy, one and several paired observations
        for (Dx, Dy, Dk, Da, N) in [(1, 1, 1, 1, 1), (1, 2, 1, 2, 2), (1, 1, 1, 2, 1), (2, 1, 1, 1, 1)] + ([] if q else [(2, 2, 1, 2, 2)]):
            out.append(gen_case(g, kind, Dx, Dy, Dk, Da, "bound", N=N))
        # Dx = 2, the projected residual a deterministic function of the noise unit's input: M proportional to w' (Dy = 1)
        dcol = gen_case(g, kind, 2, 1, 1, 1, "bound", N=1)
        dcol["M"] = [[v * 2 for v in dcol["W"][0][1:]]] if g.randint(0, 1) else [[Fr(0), Fr(0)]]
        dcol["collinear"] = True
        out.append(dcol)
        # a noise unit that does not load on y at all (zero column of A_k; needs Da > Dy): its terms vanish, the value stays finite
        dz = gen_case(g, kind, 1, 1, 1, 2, "bound", N=2)
        dz["A"] = [[Fr(0), g.qnz()]]
        out.append(dz)
        # the pieces of the bound through the model (exp / cosh-1): quadratic integrals, k_func, assembly
        if kind in ("exp", "coshm1"):
            for (Dx, Dy, Dk, Da, N) in [(1, 1, 1, 1, 1), (2, 2, 2, 2, 2), (2, 1, 1, 2, 2)] + ([] if q else [(1, 2, 2, 2, 1), (3, 2, 1, 3, 2), (2, 2, 2, 3, 3)]):
                out.append(gen_case(g, kind, Dx, Dy, Dk, Da, "parts", N=N))
        # tightness in the homoscedastic limit (Da = Dy)
        base = gen_case(g, kind, 1, 1, 1, 1, "bound")
        for sc in (Fr(1, 10), Fr(1, 100), Fr(1, 1000), Fr(0)):
            d = dict(base); d["W"] = [[row[0]] + [v * sc for v in row[1:]] for row in base["W"]]; d["scale"] = sc; d["scn"] = "tight"
            out.append(d)
    if not q:
        for _ in range(150):
            kind = g.choice(LINKS); Dy = g.randint(1, 2)
            Da = Dy + g.randint(0, 1)
            Dk = min(g.randint(1, 2), Da)       # the constructor accepts at most Da noise units
            out.append(gen_case(g, kind, g.randint(1, 2), Dy, Dk, Da, g.choice(["cond_x", "bound"]), N=g.randint(1, 2)))
    return [C.J(d) for d in out]


def search_descs(g, failing, tier):
    return [C.J(gen_case(g, d["kind"], 1, 1, 1, 1, d["scn"] if d["scn"] != "tight" else "bound")) for d in failing[:8]]


hist = lambda d: dict(kind=d["kind"], scn=d["scn"], Dx=d["Dx"], Dy=d["Dy"], Dk=d["Dk"], Da=d["Da"], scale=str(d.get("scale")), collinear=bool(d.get("collinear")))
nontrivial = lambda d: d["Dx"] * d["Dy"] * d["Dk"] > 1 or d["Da"] > d["Dy"]
scenario = lambda d: "%s/%s/%s" % (d["kind"], d["scn"], "Da=Dy" if d["Da"] == d["Dy"] else "Da>Dy")


def true_parts(d, X):
    """independent mean [N,Dy] and covariance [N,Dy,Dy] of p(y|x) at the points X [N,Dx]"""
    import numpy as np
    A = gtlib.fl(d["A"]); M = gtlib.fl(d["M"]); b = gtlib.fl(d["b"]); W = gtlib.fl(d["W"])
    Dk = d["Dk"]
    h = X @ W[:, 1:].T + W[:, 0][None]
    Dv = link_np(d["kind"], h)
    Ak = A[:, :Dk]
    Sig = (A @ A.T)[None] + np.einsum("ik,nk,jk->nij", Ak, Dv, Ak)
    return X @ M.T + b[None], Sig, Dv


def true_expected_logp(d, r, y):
    """E_{p(x)}[ln N(y; Mx+b, Sigma(x))] by quadrature with the TRUE inverse / determinant; None if no rule applies"""
    import numpy as np
    mu = gtlib.fl(d["p"]["mu"][r]); S = gtlib.fl(d["p"]["Sig"][r])
    Dx, Dy = d["Dx"], d["Dy"]
    smooth = d["kind"] in ("exp", "coshm1")
    if Dx == 1:
        kinks = [] if smooth else [float(-row[0] / row[1]) for row in d["W"] if row[1] != 0]
        X, w = c16.gl_nodes_1d(mu[0], math.sqrt(S[0, 0]), kinks)
    elif smooth and Dx == 2:
        X, w = c16.gh_nodes(mu, S, 110)
    elif Dx == 2 and d["Dk"] == 1 and any(v != 0 for v in d["W"][0][1:]):
        X, w = c16.kink_nodes_2d(mu, S, gtlib.fl(d["W"][0][1:]), float(d["W"][0][0]))      # one kink line
    else:
        return None
    m, Sg, _ = true_parts(d, X)
    res = y[None] - m
    sol = np.linalg.solve(Sg, res[:, :, None])[:, :, 0]
    lp = -0.5 * np.sum(res * sol, axis=1) - 0.5 * (Dy * math.log(2 * math.pi) + np.linalg.slogdet(Sg)[1])
    return float(w @ lp)


def run_parts(d, c, p, ob, fails):
    """exp / cosh-1 links: the pieces of the bound through the private per-unit methods (seams: the variational parameters the
    implementation chose), and the assembled value"""
    import numpy as np
    I = gtlib.impl(); jnp = I["jnp"]
    kind = d["kind"]; Dk = d["Dk"]; N = d["R"]
    ys = jarr(d["ys"])
    A_inv = jnp.einsum('abc,acd->abd', c.Lambda, c.A[:, :, :c.Dk])[0]
    half = 0.5 if kind == "exp" else 1.0
    seam = dict(os=[], lcs=[], ths=[], od=[], lcd=[], thd=[], het=[])
    for i in range(Dk):
        a_i = A_inv.T[i]
        od = np.asarray(c._get_omega_dagger(p_x=p, W_i=c.W[i]), dtype=float).reshape(-1)
        os_ = np.asarray(c._get_omega_star(p_x=p, y=ys, W_i=c.W[i], a_i=a_i), dtype=float).reshape(-1)
        quad = np.asarray(c._lower_bound_integrals(p, ys, c.W[i], a_i, jnp.array(os_)), dtype=float).reshape(-1)
        k = np.asarray(c.k_func(p_x=p, W_i=c.W[i], omega_dagger=jnp.array(od)), dtype=float).reshape(-1)
        ob.add("quadratic_integral[%d]" % i, quad)
        ob.add("k_func[%d]" % i, k)
        seam["os"].append(c16.fr(os_)); seam["lcs"].append(c16.fr(np.log(np.cosh(half * os_)))); seam["ths"].append(c16.fr(np.tanh(half * os_)))
        seam["od"].append(c16.fr(od)); seam["lcd"].append(c16.fr(np.log(np.cosh(half * od)))); seam["thd"].append(c16.fr(np.tanh(half * od)))
        seam["het"].append(c16.fr(quad))
        if not (np.all(os_ > 0) and np.all(od > 0)):
            fails.append(lin.fail(["C17"], "variational parameter not positive (the bound is only valid for positive omega)", "Heteroscedastic[%s]._get_omega_star" % kind))
    lb = np.asarray(c.integrate_log_conditional_y(p, y=ys), dtype=float).reshape(-1)
    ob.add("integrate_log_conditional_y", lb)
    SEAMS[c16.gtlib_fp(d)] = seam
    return ob, fails


def run_impl(d):
    import numpy as np
    d = C.U(d)
    ob = Obs(); fails = []
    c, p = c16.build(d)
    kind = d["kind"]; Dx, Dy, Dk, Da = d["Dx"], d["Dy"], d["Dk"], d["Da"]
    site = "Heteroscedastic[%s]" % kind
    if d["scn"] == "cond_x":
        xs = jarr(d["xs"])
        o = c.condition_on_x(xs)
        Dv_impl = np.asarray(c.link_function(c.linear_layer(xs)), dtype=float)
        SEAMS[c16.gtlib_fp(d)] = dict(Dv=c16.fr(Dv_impl))
        lin.obs_all(ob, o, [[Fr(0)] * Dy])
        m, Sg, Dv = true_parts(d, gtlib.fl(d["xs"]))
        lin.chk(fails, ["C17"], "link values", site + ".link_function", Dv_impl, Dv)
        lin.chk(fails, ["C17"], "conditional mean Mx+b", site + ".condition_on_x", o.mu, m)
        lin.chk(fails, ["C17"], "conditional covariance AA' + A_k diag(link) A_k'", site + ".condition_on_x", o.Sigma, Sg)
        key = KEY_PREC if Da > Dy else None
        lin.chk(fails, ["C17"], "precision is the inverse of the covariance", site + ".condition_on_x", np.einsum("nij,njk->nik", np.asarray(o.Sigma), np.asarray(o.Lambda)),
                np.tile(np.eye(Dy)[None], (len(m), 1, 1)), key=key)
        lin.chk(fails, ["C17"], "ln_det_Sigma is the log-determinant of the covariance", site + ".condition_on_x", o.ln_det_Sigma, np.linalg.slogdet(Sg)[1], key=key)
        return ob, fails
    if d["scn"] == "parts":
        return run_parts(d, c, p, ob, fails)
    # ---- lower bounds
    ys = jarr(d["ys"])
    lb = np.asarray(c.integrate_log_conditional_y(p, y=ys), dtype=float).reshape(-1)
    ob.add("shape", [float(lb.shape[0])], exact=True)
    N = d["R"]
    truth = [true_expected_logp(d, r, gtlib.fl(d["ys"][r])) for r in range(N)]
    if lb.shape[0] != N:
        fails.append(lin.fail(["C17"], "one bound per observation / prior pair expected, got shape %s" % (lb.shape,), site + ".integrate_log_conditional_y"))
        return ob, fails
    gaps = []
    zero_unit = any(all(v == 0 for v in row[1:]) for row in d["W"])
    # (step / rectified-linear link with a noise unit whose input weights are all zero: h is a constant, the truncated-Gaussian
    #  route of the code degenerates (0/0); the property claims the zero-weight limit for the exp and cosh-1 links only)
    if not np.all(np.isfinite(lb)) and not (zero_unit and kind in ("heaviside", "relu")):
        fails.append(lin.fail(["C17"], "returned bound is not finite", site + ".integrate_log_conditional_y", None, values=[float(v) for v in lb]))
    for r in range(N):
        if truth[r] is None:
            continue
        gap = truth[r] - lb[r]
        gaps.append(gap)
        key = KEY_BOUND if Da > Dy else None
        if kind == "heaviside":
            if abs(gap) > 1e-6 * max(1.0, abs(truth[r])):
                fails.append(lin.fail(["C17"], "step link: returned value differs from the true expectation", site + ".integrate_log_conditional_y", key,
                                      gap=float(gap), truth=truth[r]))
        elif gap < -1e-7 * max(1.0, abs(truth[r])):
            fails.append(lin.fail(["C17"], "returned value exceeds the true expectation of ln p(y|x) (not a lower bound)", site + ".integrate_log_conditional_y", key,
                                  gap=float(gap), truth=truth[r]))
    if d["scn"] == "tight" and gaps:
        # zero weights: exact for exp / cosh-1 ; decay handled across the scale series by the runner-independent check below
        if d["scale"] == 0 and kind in ("exp", "coshm1") and abs(gaps[0]) > 1e-9 * max(1.0, abs(truth[0])):
            fails.append(lin.fail(["C17"], "bound not tight at zero weights", site + ".integrate_log_conditional_y", None, gap=float(gaps[0])))
        if d["scale"] == Fr(1, 100) and kind != "heaviside":
            # the same model with weights / 10: the gap must shrink at least 30-fold (quadratic decay ~ 100).  Only the decade
            # 1/100 -> 1/1000 is tested: the statement is asymptotic, and at larger scales the mean of h = w0 + s w'x still
            # moves with s (the constant in gap <= s^2 (2 s^2 v1^2 + 4 m(s)^2 v1)/192, trunc/C17R.v, depends on it) -- the
            # decade 1/10 -> 1/100 gave a ratio of 24 on a valid model (false alarm at seed 3)
            d2 = dict(d); d2["W"] = [[row[0]] + [v / 10 for v in row[1:]] for row in d["W"]]
            c2, p2 = c16.build(d2)
            lb2 = float(np.asarray(c2.integrate_log_conditional_y(p2, y=ys)).reshape(-1)[0])
            t2 = true_expected_logp(d2, 0, gtlib.fl(d["ys"][0]))
            gap2 = t2 - lb2
            if gaps[0] > 1e-9 and not (gap2 <= gaps[0] / 30 + 1e-10):
                fails.append(lin.fail(["C17"], "gap does not vanish quadratically with the weight scale", site + ".integrate_log_conditional_y", None,
                                      gap=float(gaps[0]), gap_tenth=float(gap2)))
    return ob, fails


def enc(x):
    """a float as the exact 5-integer encoding of a rational model value"""
    f = Fr(float(x))
    return [f.numerator, f.denominator, 0, 1, 1]


def post_model(d, ints):
    """parts: a quadratic integral is mass * expectation = exp(log-mass) * rational; it leaves the log domain, so the model
    returns (log-mass, expectation) pairs which are combined here (cosh-1: plus + minus - base); everything else passes
    through unchanged"""
    if d.get("scn") != "parts":
        return ints
    N, Dk, R = d["R"], d["Dk"], d["R"]
    npair = 1 if d["kind"] == "exp" else 3
    out = []; pos = 0
    for i in range(Dk):
        for n in range(N):
            t = gtlib.decode5(ints[pos:pos + 10 * npair]); pos += 10 * npair
            v = [math.exp(gtlib.lfloat(t[2 * k])) * float(t[2 * k + 1][0]) for k in range(npair)]
            out += enc(v[0] if npair == 1 else v[0] + v[1] - v[2])
        out += ints[pos:pos + 5 * R]; pos += 5 * R
    return out + ints[pos:]


def coq_parts(d):
    """the bound, unit by unit, through model/HetBound.v with the variational parameters the implementation chose"""
    s = SEAMS[c16.gtlib_fp(d)]
    Dx, Dy, Dk, Da, N = d["Dx"], d["Dy"], d["Dk"], d["Da"], d["R"]
    exp = d["kind"] == "exp"
    pre = "let p := %s in let ys := lxs %s in let A := lm %s in let M := lm %s in let b := lv %s in " % (
        lin.coq_pdfv(d["p"]), cmat(d["ys"]), cmat(d["A"]), cmat(d["M"]), cvec(d["b"]))
    parts = []; kqs = []
    for i in range(Dk):
        w = "(lv %s)" % cvec(d["W"][i][1:]); b0 = "(%s)" % cq(d["W"][i][0])
        st = "(lv %s) (lv %s) (lv %s)" % (cvec(s["os"][i]), cvec(s["lcs"][i]), cvec(s["ths"][i]))
        dg = "(lv %s) (lv %s) (lv %s)" % (cvec(s["od"][i]), cvec(s["lcd"][i]), cvec(s["thd"][i]))
        geo = "(hb_aM Dy Da Dk A M %d) (hb_ayb Dy Da Dk A b ys %d)" % (i, i)
        geo = geo.replace("Dy", str(Dy)).replace("Da", str(Da)).replace("Dk", str(Dk))
        if exp:
            parts.append("flatten [seq (let: (lm, mo) := hb_exp_quad p %d %d %s %s %s %s n in dumpL lm ++ dumpF mo) | n <- iota 0 %d]"
                         % (N, Dx, w, b0, st, geo, N))
            kq = "(hb_exp_kq p %s %s %s)" % (w, b0, dg)
            parts.append("dL %d (fun r => (emb LQ (%s r) + ln2 LQ)%%R)" % (N, kq))
        else:
            parts.append("flatten [seq (let: (tp, tm, t1) := hb_cosh_quad p %d %d %s %s %s %s n in dumpL tp.1 ++ dumpF tp.2 ++ dumpL tm.1 ++ dumpF tm.2 ++ dumpL t1.1 ++ dumpF t1.2) | n <- iota 0 %d]"
                         % (N, Dx, w, b0, st, geo, N))
            kq = "(hb_cosh_kq p %s %s %s)" % (w, b0, dg)
            parts.append("dL %d (fun r => emb LQ (%s r))" % (N, kq))
        kqs.append(kq)
    het = "(fun i => lv (nth [::] %s i))" % gtlib.cseq([cvec(h) for h in s["het"]])
    kqf = "(fun i => nth vzero %s i)" % gtlib.cseq(kqs)
    fin = "dL %d (hb_final %d %d %d %d A M b p ys %s %s %d)" % (N, Dy, Da, Dk, Dx, het, kqf, Dk if exp else 0)
    return "(" + pre + " ++ ".join(parts + [fin]) + ")"


def coq_term(d):
    d = C.U(d)
    if d["scn"] == "parts":
        return coq_parts(d)
    if d["scn"] != "cond_x":
        return "dnat %d" % d["R"]
    seam = SEAMS[c16.gtlib_fp(d)]
    return coq_cx(d, seam, "true")


def coq_cx(d, seam, faithful):
    Dx, Dy, Dk, Da = d["Dx"], d["Dy"], d["Dk"], d["Da"]
    return "obs_all (het_condition_on_x LQ %d %d %d %d (lm %s) (lm %s) (lv %s) %s (lxs %s) (lxs %s)) %s" % (
        Dy, Da, Dk, Dx, cmat(d["A"]), cmat(d["M"]), cvec(d["b"]), faithful, cmat(d["xs"]), cmat(seam["Dv"]), cmat([[Fr(0)] * Dy]))


def alt_terms(d):
    d = C.U(d)
    if d["scn"] != "cond_x" or c16.gtlib_fp(d) not in SEAMS:
        return []
    return [coq_cx(d, SEAMS[c16.gtlib_fp(d)], "false")]


# objects with a history (lin.with_history): dry run on the before-state objects, in-place mutation, observed run
run_impl = lin.with_history(run_impl)
