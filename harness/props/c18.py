# C18: JAX transformations and round trips preserve values.
import os, math, shutil, subprocess
from fractions import Fraction as Fr
from .. import gtlib
from ..gtlib import cq, cvec, cmat, cb3, cbool, cseq, cints, cnats, jarr, Obs, VERIF
from . import common as C, lin

PROP = "C18"
WIDEN_MAX = 24          # extra thorough-generator cases when the anchored sources have drifted (harness/drift.py)
PROPS_FILE = "props/C18.v"
RULE = ("cases = (a) pipelines built from public operations (product with general / rank-one factor and integrals; "
        "marginal + conditioning; joint, marginal and conditional transformation; likelihood factors, product, normalise; "
        "polynomial integrals; KL, entropy, mutual information; expected log-conditional; truncated integrals), each run "
        "eagerly, under jit (objects built inside, passed as arguments and returned), under vmap over a data axis, and "
        "differentiated (reverse mode) w.r.t. every continuous parameter against central differences; (b) pytree round "
        "trips (tree_flatten/unflatten, jit identity, lax.scan carry) and to_dict/from_dict of every factor / measure / "
        "density / linear conditional class, with and without populated caches; non-trivial = more than one scalar "
        "dimension; distinct = SHA1 of the input")
EXPLANATION = ("schema theorems re-checked over a schema REGENERATED from /repo's source (harness/schema_extract.py -> "
               "Schema.v, coq/schema/SchemaThm.v); constructor round-trip theorems on the model (props/C18.v); the eager output "
               "of every pipeline is compared with the model at Qc; jit / vmap / grad outputs are compared with the eager ones "
               "and with central differences (runtime semantics of JAX are not modelled)")
TRUSTED_EXTRA = ["harness/schema_extract.py (Python ast translator, fail-closed on unknown syntax)",
                 "XLA tracing (jit), batching (vmap) and reverse-mode AD are properties of the JAX runtime: compared, not proved"]


# ------------------------------------------------------------------ (i) regenerated schema
def pre_check(workdir, tier):
    from .. import schema_extract
    d = os.path.join(workdir, "schema")
    os.makedirs(d, exist_ok=True)
    try:
        sch = schema_extract.extract(gtlib.REPO)
    except Exception as e:
        return dict(ok=False, error="translator failed closed: %s: %s" % (type(e).__name__, e))
    open(os.path.join(d, "Schema.v"), "w").write(schema_extract.to_coq(sch))
    shutil.copy(os.path.join(gtlib.COQ, "schema", "SchemaThm.v"), d)
    r1 = subprocess.run(["coqc", "-Q", ".", "", "Schema.v"], cwd=d, capture_output=True, text=True, timeout=300)
    r2 = subprocess.run(["coqc", "-Q", ".", "", "SchemaThm.v"], cwd=d, capture_output=True, text=True, timeout=300)
    ok = r1.returncode == 0 and r2.returncode == 0
    return dict(ok=ok, classes=len(sch["classes"]), flatten_mode=sch["flatten_mode"],
                theorems=["unflatten_total", "flatten_available", "dict_keys_are_init_fields", "classes_present", "control_flow_static", "control_flow_seen"],
                control_flow_tests=len(sch.get("tests", [])),
                closed=r2.stdout.count("Closed under the global context"), error=(r1.stderr + r2.stderr)[-800:],
                nonfield_attrs={c["name"]: [a for a in c["attrs"] if a not in dict(c["fields"])] for c in sch["classes"]
                                if any(a not in dict(c["fields"]) for a in c["attrs"])})


# ------------------------------------------------------------------ helpers
def spd_from(B, dvec):
    D = len(B)
    return [[sum(B[i][k] * B[j][k] for k in range(D)) + (dvec[i] if i == j else 0) for j in range(D)] for i in range(D)]


def gen_B(g, R, D):
    import numpy as np
    while True:
        B = [[[Fr(g.randint(-2, 2)) for _ in range(D)] for _ in range(D)] for _ in range(R)]
        dv = [[Fr(g.randint(1, 3)) for _ in range(D)] for _ in range(R)]
        if all(np.linalg.cond(gtlib.fl(spd_from(B[r], dv[r]))) < 1e3 for r in range(R)):
            return B, dv


PIPES = ["mul_eval", "onerank_sm", "marg_cond", "joint", "post", "lik", "moments", "info", "logcond_y", "trunc", "approx"]
NOMODEL = ("trunc", "approx")       # eager values tied to the model by C20 / C16 / C17; here: jit, vmap, grad vs eager
OBJS = ["general", "onerank", "linear", "constant", "measure", "measure_cached", "diagmeasure", "pdf", "diagpdf",
        "cond_full", "cond_diag", "cond_ident", "cond_identdiag"]


def gen_trunc(g, mode=None):
    """1-D truncated measure: one-sided (lower / upper) and two-sided limits; all integrals; gradients w.r.t. the
    precision, information vector, log-constant and the finite limits"""
    R = g.randint(1, 2)
    mode = mode or g.choice(["lower", "upper", "both"])
    d = dict(scn="pipe", pipe="trunc", R=R, D=1, mode=mode, lam=[[[g.qpos()]] for _ in range(R)], nu=g.mat(R, 1), lb=g.vec(R))
    lo = [[Fr(g.randint(-4, 2), 2)] for _ in range(R)]
    if mode in ("lower", "both"):
        d["lo"] = lo
    if mode in ("upper", "both"):
        d["hi"] = [[l[0] + Fr(g.randint(1, 6), 2)] for l in lo]
    return d


def gen_approx(g, kind=None):
    """approximate conditionals built INSIDE the transformed function from arrays: moment-matched marginal (feature
    models and heteroscedastic links) and the variational bound (lax.while_loop, stop_gradient)"""
    from . import c16
    kind = kind or g.choice(["lrbf", "lsem", "exp", "coshm1", "heaviside", "relu"])
    Dx, Dy, Dk = g.randint(1, 2), g.randint(1, 2), g.randint(1, 2)
    if kind not in ("lrbf", "lsem"):
        Dk = min(Dk, Dy)
    c = c16.gen_case(g, kind, Dx, Dy, Dk, R=1)
    B, dv = gen_B(g, 1, Dx)
    d = dict(scn="pipe", pipe="approx", kind=kind, R=1, D=Dx, Dy=Dy, Dk=Dk, B=B, dv=dv, mu=g.mat(1, Dx), ys=g.mat(1, Dy),
             M=[c["M"]], b=[c["b"]])
    if kind == "lrbf":
        d.update(cc=c["c"], ll=c["l"], Sig=c["Sig"])
    elif kind == "lsem":
        d.update(W=c["W"], Sig=c["Sig"])
    else:
        d.update(W=c["W"], A=[c["A"]])
    return d


def gen_pipe(g, pipe):
    if pipe == "trunc":
        return gen_trunc(g)
    if pipe == "approx":
        return gen_approx(g)
    R = g.randint(1, 2); D = g.randint(1, 3)
    d = dict(scn="pipe", pipe=pipe, R=R, D=D)
    B, dv = gen_B(g, R, D)
    d.update(B=B, dv=dv, mu=g.mat(R, D), xs=g.mat(3, D))
    Dy = g.randint(1, 2)
    d["Dy"] = Dy
    if pipe == "mul_eval":
        B2, dv2 = gen_B(g, 2, D)
        d.update(nu=g.mat(R, D), lb=g.vec(R), fB=B2, fdv=dv2, fnu=g.mat(2, D), flb=g.vec(2))
    elif pipe == "onerank_sm":
        d.update(nu=g.mat(R, D), lb=g.vec(R), v=g.mat(2, D), gg=[g.qpos() for _ in range(2)], fnu=g.mat(2, D), flb=g.vec(2))
    elif pipe == "marg_cond":
        D = max(D, 2); d["D"] = D
        B, dv = gen_B(g, R, D); d.update(B=B, dv=dv, mu=g.mat(R, D), xs=g.mat(3, D))
        k = g.randint(1, D - 1); dims = list(range(D)); g.shuffle(dims); d["dims"] = dims[:k]
    elif pipe in ("joint", "post", "lik", "info", "logcond_y"):
        Rc = 1 if R > 1 else g.randint(1, 2)
        if pipe in ("lik", "logcond_y"):
            Rc = 1
        By, dvy = gen_B(g, Rc, Dy)
        d.update(Rc=Rc, M=[g.mat(Dy, D) for _ in range(Rc)], b=g.mat(Rc, Dy), By=By, dvy=dvy, ys=g.mat(3, Dy))
    elif pipe == "moments":
        K, L = g.randint(1, 3), g.randint(1, 3)
        d.update(K=K, L=L, A=g.mat(K, D), a=g.vec(K), Bm=g.mat(K, D), bv=g.vec(K), Cm=g.mat(L, D), cv=g.vec(L), Dm=g.mat(L, D), dvv=g.vec(L))
    return d


def gen_obj(g, kind):
    R = g.randint(1, 3); D = g.randint(1, 3)
    d = dict(scn="rt", kind=kind, xs=g.mat(2, D))
    if kind in ("general", "onerank", "linear", "constant"):
        d["o"] = C.gen_factor(g, kind, R, D)
    elif kind in ("measure", "measure_cached", "diagmeasure"):
        d["o"] = C.gen_measure(g, R, D, diag=(kind == "diagmeasure"))
    elif kind in ("pdf", "diagpdf"):
        d["o"] = lin.gen_pdfv(g, R, D, diag=(kind == "diagpdf"), ctor="Sigma")
    else:
        c = lin.gen_cond(g, kind[5:], R, g.randint(1, 2), D, ctor="Sigma")
        d["o"] = c; d["xs"] = g.mat(2, c["Dx"]); d["ys"] = g.mat(2, c["Dy"])
    return d


def gen_descs(g, tier):
    q = tier == "quick"
    out = []
    for pipe in PIPES:
        for _ in range(2 if q else 25):
            out.append(gen_pipe(g, pipe))
    out += [gen_trunc(g, mode) for mode in ("lower", "upper", "both")]
    out += [gen_approx(g, kind) for kind in ("lrbf", "lsem", "exp", "coshm1", "heaviside", "relu")]
    for kind in OBJS:
        for _ in range(1 if q else 10):
            out.append(gen_obj(g, kind))
    # the same jitted function applied to two different objects of one class (and one shape): no conflation
    for cls in ("full", "diag", "ident", "nn"):
        for _ in range(1 if q else 6):
            R, Dy, Dx = g.randint(1, 2), g.randint(1, 2), g.randint(1, 2)
            c1 = lin.gen_cond(g, cls, R, Dy, Dx, ctor="Sigma"); c2 = lin.gen_cond(g, cls, R, Dy, Dx, ctor="Sigma")
            if cls == "nn":
                c2["Du"] = c1["Du"]; c2["W"] = g.mat(c1["Du"], c1["Dy"] * (c1["Dx"] + 1)); c2["u"] = g.mat(lin.cond_R(c1), c1["Du"])
                out2 = [[sum(c2["u"][r][k] * c2["W"][k][j] for k in range(c2["Du"])) + c2["c0"][j] for j in range(c1["Dy"] * (c1["Dx"] + 1))] for r in range(lin.cond_R(c1))]
                c2["M"] = [[[out2[r][i * c1["Dx"] + j] for j in range(c1["Dx"])] for i in range(c1["Dy"])] for r in range(lin.cond_R(c1))]
                c2["b"] = [out2[r][c1["Dy"] * c1["Dx"]:] for r in range(lin.cond_R(c1))]
            if c1.get("b") is None or c2.get("b") is None:
                c1["b"] = g.mat(R, c1["Dy"]) if cls in ("full", "diag") else c1.get("b"); c2["b"] = g.mat(R, c1["Dy"]) if cls in ("full", "diag") else c2.get("b")
            out.append(dict(scn="jit2", c1=c1, c2=c2, xs=g.mat(2, c1["Dx"]), ys=g.mat(2, c1["Dy"])))
    return [C.J(d) for d in out]


def search_descs(g, failing, tier):
    return [C.J(gen_obj(g, k)) for k in OBJS] + [C.J(gen_pipe(g, p)) for p in PIPES]


hist = lambda d: dict(scn=d["scn"], what=d.get("pipe") or d.get("kind") or d["c1"]["cls"])
nontrivial = lambda d: True
scenario = lambda d: "%s:%s" % (d["scn"], d.get("pipe") or d.get("kind") or d["c1"]["cls"])


# ------------------------------------------------------------------ pipelines as functions of arrays
def theta_of(d):
    """continuous parameters (name -> Fractions) in a fixed order; everything else is static"""
    names = {"mul_eval": ["B", "mu", "nu", "lb", "fB", "fnu", "flb", "xs"],
             "onerank_sm": ["B", "nu", "lb", "v", "gg", "fnu", "flb", "xs"],
             "marg_cond": ["B", "mu", "xs"],
             "joint": ["B", "mu", "M", "b", "By", "xs", "ys"], "post": ["B", "mu", "M", "b", "By", "xs", "ys"],
             "lik": ["B", "mu", "M", "b", "By", "xs", "ys"], "info": ["B", "mu", "M", "b", "By"],
             "logcond_y": ["B", "mu", "M", "b", "By", "ys"],
             "moments": ["B", "mu", "A", "a", "Bm", "bv", "Cm", "cv", "Dm", "dvv"],
             "trunc": ["lam", "nu", "lb"] + [n for n in ("lo", "hi") if n in d],
             "approx": ["B", "mu", "M", "b"] + [n for n in ("cc", "ll", "W", "A") if n in d] + ["ys"]}[d["pipe"]]
    return names


def make_fn(d):
    """f(theta dict of jnp arrays) -> 1-D jnp array, built from public operations only"""
    I = gtlib.impl(); jnp = I["jnp"]; jax = I["jax"]
    F, Ms, P, Cn = I["factor"], I["measure"], I["pdf"], I["conditional"]
    pipe = d["pipe"]; D = d["D"]
    if pipe == "trunc":
        from gaussian_toolbox.experimental import truncated_measure as tmod
        def cat(*xs):
            return jnp.concatenate([jnp.ravel(x) for x in xs])
        def f(t):
            u = Ms.GaussianMeasure(Lambda=t["lam"], nu=t["nu"], ln_beta=t["lb"])
            tm = tmod.TruncatedGaussianMeasure(measure=u, lower_limit=t.get("lo"), upper_limit=t.get("hi"))
            return cat(tm.integrate("1"), tm.integrate("x"), tm.integrate("x**2"), tm.integrate("x**k", k=3))
        return f
    if pipe == "approx":
        from gaussian_toolbox import approximate_conditional as ac
        kind = d["kind"]; dv0 = jarr(d["dv"])
        def cat(*xs):
            return jnp.concatenate([jnp.ravel(x) for x in xs])
        def f(t):
            Sx = jnp.einsum("rik,rjk->rij", t["B"], t["B"]) + dv0[:, :, None] * jnp.eye(D)[None]
            p = P.GaussianPDF(Sigma=Sx, mu=t["mu"])
            if kind == "lrbf":
                c = ac.LRBFGaussianConditional(M=t["M"], b=t["b"], mu=t["cc"], length_scale=t["ll"], Sigma=jarr([d["Sig"]]))
            elif kind == "lsem":
                c = ac.LSEMGaussianConditional(M=t["M"], b=t["b"], W=t["W"], Sigma=jarr([d["Sig"]]))
            else:
                cls = dict(exp=ac.HeteroscedasticExpConditional, coshm1=ac.HeteroscedasticCoshM1Conditional,
                           heaviside=ac.HeteroscedasticHeavisideConditional, relu=ac.HeteroscedasticReLUConditional)[kind]
                c = cls(M=t["M"], b=t["b"], A=t["A"], W=t["W"])
            pm = c.affine_marginal_transformation(p)
            return cat(pm.mu, pm.Sigma, c.integrate_log_conditional_y(p, y=t["ys"]))
        return f
    dv = jarr(d["dv"])
    def spd(B, dvv):
        return jnp.einsum("rik,rjk->rij", B, B) + dvv[:, :, None] * jnp.eye(B.shape[-1])[None]
    def cat(*xs):
        return jnp.concatenate([jnp.ravel(x) for x in xs])
    def prior(t):
        return P.GaussianPDF(Sigma=spd(t["B"], dv), mu=t["mu"])
    def cond(t):
        return Cn.ConditionalGaussianPDF(M=t["M"], b=t["b"], Sigma=spd(t["By"], jarr(d["dvy"])))
    if pipe == "mul_eval":
        fdv = jarr(d["fdv"])
        def f(t):
            u = Ms.GaussianMeasure(Lambda=spd(t["B"], dv), nu=t["nu"], ln_beta=t["lb"])
            fac = F.ConjugateFactor(Lambda=spd(t["fB"], fdv), nu=t["fnu"], ln_beta=t["flb"])
            r = u.multiply(fac, update_full=True)
            return cat(r.evaluate_ln(t["xs"]), r.log_integral(), r.integrate("x") / r.integral()[:, None])
    elif pipe == "onerank_sm":
        def f(t):
            u = Ms.GaussianMeasure(Lambda=spd(t["B"], dv), nu=t["nu"], ln_beta=t["lb"])
            u.integrate()
            fac = F.OneRankFactor(v=t["v"], g=t["gg"], nu=t["fnu"], ln_beta=t["flb"])
            r = u.multiply(fac, update_full=True)
            return cat(r.evaluate_ln(t["xs"]), r.log_integral(), r.Sigma, r.ln_det_Sigma)
    elif pipe == "marg_cond":
        dims = d["dims"]; comp = [i for i in range(D) if i not in dims]
        def f(t):
            p = prior(t)
            import numpy as onp
            c = p.condition_on(onp.array(dims))
            xb = t["xs"][:, onp.array(dims)]; xa = t["xs"][:, onp.array(comp)]
            return cat(c.condition_on_x(xb).evaluate_ln(xa), p.get_marginal(onp.array(dims)).evaluate_ln(xb), p.entropy())
    elif pipe == "joint":
        def f(t):
            j = cond(t).affine_joint_transformation(prior(t))
            z = jnp.concatenate([t["xs"], t["ys"]], axis=1)
            return cat(j.evaluate_ln(z), j.entropy())
    elif pipe == "post":
        def f(t):
            c, p = cond(t), prior(t)
            post = c.affine_conditional_transformation(p).condition_on_x(t["ys"])
            return cat(post.mu, post.Sigma, c.affine_marginal_transformation(p).evaluate_ln(t["ys"]))
    elif pipe == "lik":
        def f(t):
            c, p = cond(t), prior(t)
            m = p.multiply(c.set_y(t["ys"]).product())
            g2 = m.get_density()
            return cat(m.log_integral(), g2.mu, g2.Sigma)
    elif pipe == "info":
        def f(t):
            c, p = cond(t), prior(t)
            return cat(c.mutual_information(p), c.conditional_entropy(p), p.entropy())
    elif pipe == "logcond_y":
        def f(t):
            return cat(cond(t).integrate_log_conditional_y(prior(t), y=(t["ys"][:1] if d["R"] == 1 else t["ys"][:d["R"]])))
    elif pipe == "moments":
        def f(t):
            p = prior(t)
            q4 = p.integrate("(Ax+a)'(Bx+b)(Cx+c)'(Dx+d)", A_mat=t["A"], a_vec=t["a"], B_mat=t["Bm"], b_vec=t["bv"], C_mat=t["Cm"], c_vec=t["cv"], D_mat=t["Dm"], d_vec=t["dvv"])
            c3 = p.integrate("(Ax+a)(Bx+b)'(Cx+c)", A_mat=t["A"], a_vec=t["a"], B_mat=t["Cm"], b_vec=t["cv"], C_mat=t["Dm"], c_vec=t["dvv"])
            return cat(q4, c3)
    else:
        raise ValueError(pipe)
    return f


def coq_pipe(d):
    if d["pipe"] in NOMODEL:
        # the eager values of the truncated integrals / approximate conditionals are tied to the model by C20 / C16 /
        # C17 (cdf tables, seams); here only jit / vmap / grad are compared with the eager run
        return "[:: Zpos xH; Zpos xH; Z0; Zpos xH; Zpos xH]"
    R, D = d["R"], d["D"]
    Sig = [spd_from(d["B"][r], d["dv"][r]) for r in range(R)]
    p = "(@mk_pdf _ LQ false %d %d (lb3 %s) (lb2 %s) None None)" % (R, D, cb3(Sig), cmat(d["mu"]))
    xs = cmat(d["xs"]) if "xs" in d else None
    pipe = d["pipe"]
    if pipe in ("joint", "post", "lik", "info", "logcond_y"):
        Rc, Dy = d["Rc"], d["Dy"]
        Sy = [spd_from(d["By"][r], d["dvy"][r]) for r in range(Rc)]
        c = "(mk_cond CFull %d %d %d (lb3 %s) (lb2 %s) (Some (lb3 %s)) None None)" % (Rc, Dy, D, cb3(d["M"]), cmat(d["b"]), cb3(Sy))
        Rn = Rc * R
    if pipe == "mul_eval":
        u = "(mk_measure CMeas %d %d (lb3 %s) (lb2 %s) (ll %s) None None None)" % (R, D, cb3(Sig), cmat(d["nu"]), cvec(d["lb"]))
        fS = [spd_from(d["fB"][r], d["fdv"][r]) for r in range(2)]
        f = "(mk_general 2 %d (lb3 %s) (lb2 %s) (ll %s))" % (D, cb3(fS), cmat(d["fnu"]), cvec(d["flb"]))
        return ("let r := multiply true %s %s in obs_ueval r %s ++ dL %d (log_integral r).2 ++ "
                "perR %d (fun k => dV %d (int_x r k))" % (u, f, xs, 2 * R, 2 * R, D))
    if pipe == "onerank_sm":
        u = "(prepare (mk_measure CMeas %d %d (lb3 %s) (lb2 %s) (ll %s) None None None))" % (R, D, cb3(Sig), cmat(d["nu"]), cvec(d["lb"]))
        f = "(mk_onerank 2 %d (lb2 %s) (lv %s) (lb2 %s) (ll %s))" % (D, cmat(d["v"]), cvec(d["gg"]), cmat(d["fnu"]), cvec(d["flb"]))
        return ("let r := multiply true %s %s in obs_ueval r %s ++ dL %d (log_integral r).2 ++ dB3 %d %d %d (getS r) ++ dL2 %d (gethS r)"
                % (u, f, xs, 2 * R, 2 * R, D, D, 2 * R))
    if pipe == "marg_cond":
        dims = d["dims"]; comp = [i for i in range(D) if i not in dims]
        xb = cmat([[x[i] for i in dims] for x in d["xs"]]); xa = cmat([[x[i] for i in comp] for x in d["xs"]])
        return ("let p := %s in obs_ueval (condition_on_x (condition_on %s p) (lxs %s)) %s ++ obs_ueval (get_marginal %s p) %s ++ dL %d (entropy p)"
                % (p, cnats(dims), xb, xa, cnats(dims), xb, R))
    if pipe == "joint":
        zs = cmat([x + y for x, y in zip(d["xs"], d["ys"])])
        return "let j := affine_joint %s %s in obs_ueval j %s ++ dL %d (entropy j)" % (c, p, zs, Rn)
    if pipe == "post":
        N = len(d["ys"])
        return ("let c := %s in let p := %s in let pq := condition_on_x (affine_conditional c p) (lxs %s) in "
                "dB2 %d %d (getmu pq) ++ dB3 %d %d %d (getS pq) ++ obs_ueval (affine_marginal c p) %s"
                % (c, p, cmat(d["ys"]), Rn * N, D, Rn * N, D, D, cmat(d["ys"])))
    if pipe == "lik":
        return ("let m := multiply false %s (fproduct (set_y true %s (lxs %s))) in let g := (get_density m).2 in "
                "dL %d (log_integral m).2 ++ dB2 %d %d (getmu g) ++ dB3 %d %d %d (getS g)" % (p, c, cmat(d["ys"]), R, R, D, R, D, D))
    if pipe == "info":
        return ("let c := %s in let p := %s in dL %d (mutual_information false c p) ++ dL %d (conditional_entropy c p) ++ dL %d (entropy p)"
                % (c, p, Rn, Rn, R))
    if pipe == "logcond_y":
        ys = d["ys"][:1] if R == 1 else d["ys"][:R]
        return "dL %d (int_log_cond_y %s %s (lxs %s))" % (max(R, len(ys)), c, p, cmat(ys))
    if pipe == "moments":
        K, L = d["K"], d["L"]
        f = lambda m, v, k: "(cm2 %d %s) (cv1 %s)" % (k, cmat(m), cvec(v))
        return ("let u := %s in perR %d (fun r => dF (int_quartic_inner u %s %s %s %s r)) ++ perR %d (fun r => dV %d (int_cubic_inner u %s %s %s r))"
                % (p, R, f(d["A"], d["a"], K), f(d["Bm"], d["bv"], K), f(d["Cm"], d["cv"], L), f(d["Dm"], d["dvv"], L),
                   R, K, f(d["A"], d["a"], K), f(d["Cm"], d["cv"], L), f(d["Dm"], d["dvv"], L)))
    raise ValueError(pipe)


# ------------------------------------------------------------------ round trips
def build_obj(d):
    k = d["kind"]; o = d["o"]
    if k in ("general", "onerank", "linear", "constant"):
        return C.impl_factor(o)
    if k in ("measure", "diagmeasure"):
        return C.impl_measure(o)
    if k == "measure_cached":
        m = C.impl_measure(o); m.integrate(); return m
    if k in ("pdf", "diagpdf"):
        return lin.impl_pdfv(o)
    return lin.impl_cond(o)[0]


def coq_rt(d):
    k = d["kind"]; o = d["o"]; xs = cmat(d["xs"])
    if k in ("general", "onerank", "linear", "constant"):
        return "obs_fall %s %s" % (C.coq_factor(o), xs)
    if k in ("measure", "diagmeasure"):
        return "obs_ueval %s %s ++ obs_ucore %s" % (C.coq_measure(o), xs, C.coq_measure(o))
    if k == "measure_cached":
        # constructor round trip keeps Sigma and both log-determinants, lnZ and mu start empty again
        t = "(let u := prepare %s in mk_measure (ucls u) (uR u) (uD u) (uLam u) (unu u) (ulb u) (uSig u) (uhldS u) (uhldL u))" % C.coq_measure(o)
        return "obs_ueval %s %s ++ obs_ucore %s" % (t, xs, t)
    if k in ("pdf", "diagpdf"):
        t = "(let p := %s in mk_pdf %s (uR p) (uD p) (getS p) (getmu p) (Some (uLam p)) (Some (gethS p)))" % (lin.coq_pdfv(o), cbool(k == "diagpdf"))
        return "obs_ueval %s %s ++ obs_ucore %s" % (t, xs, t)
    c = lin.coq_cond(o)
    t = "(let c := %s in mk_cond (ccl c) (cR c) (cDy c) (cDx c) (cM c) (cb c) (Some (cSig c)) (Some (cLam c)) (Some (chS c)))" % c
    return "obs_cond %s ++ obs_ueval (condition_on_x %s (lxs %s)) %s" % (t, t, xs, cmat(d["ys"]))


def coq_term(d):
    d = C.U(d)
    if d["scn"] == "jit2":
        # the second object conditioned on x, evaluated at y (what the jitted function must return for it)
        return "obs_ueval (condition_on_x %s (lxs %s)) %s" % (lin.coq_cond(d["c2"]), cmat(d["xs"]), cmat(d["ys"]))
    return coq_pipe(d) if d["scn"] == "pipe" else coq_rt(d)


def observe(o, d, ob=None, tag=""):
    import numpy as np
    k = d["kind"]
    xs = jarr(d["xs"])
    out = []
    if k.startswith("cond_"):
        names = ["Sigma", "Lambda", "ln_det_Sigma"] if "ident" in k else ["M", "b", "Sigma", "Lambda", "ln_det_Sigma"]
        out = [(n, np.asarray(getattr(o, n), dtype=float)) for n in names]
        out.append(("cond(x).evaluate_ln(y)", np.asarray(o.condition_on_x(xs).evaluate_ln(jarr(d["ys"])), dtype=float)))
    else:
        out.append(("evaluate_ln", np.asarray(o.evaluate_ln(xs), dtype=float)))
        out += [(n, np.asarray(getattr(o, n), dtype=float)) for n in ("Lambda", "nu", "ln_beta")]
    return out


def run_impl(d):
    import numpy as np
    d = C.U(d)
    I = gtlib.impl(); jax = I["jax"]; jnp = I["jnp"]
    ob = Obs(); fails = []
    if d["scn"] == "jit2":
        o1, kw1 = lin.impl_cond(d["c1"]); o2, kw2 = lin.impl_cond(d["c2"])
        xs = jarr(d["xs"]); ys = jarr(d["ys"])
        nn = d["c1"]["cls"] == "nn"
        if nn:
            f = lambda o, x, y, u: o.condition_on_x_u(x, u).evaluate_ln(y)
            eager2 = np.asarray(f(o2, xs, ys, kw2["u"]), dtype=float)
            jf = jax.jit(f)
            try:
                j1 = np.asarray(jf(o1, xs, ys, kw1["u"]), dtype=float); j2 = np.asarray(jf(o2, xs, ys, kw2["u"]), dtype=float)
                lin.chk(fails, ["C18"], "jitted function returns another object's values (second call)", "jit:nn", j2, eager2)
                lin.chk(fails, ["C18"], "jitted function differs from eager (first call)", "jit:nn", j1, np.asarray(f(o1, xs, ys, kw1["u"]), dtype=float))
            except Exception as e:
                fails.append(lin.fail(["C18"], "jit with an object argument raises %s: %s" % (type(e).__name__, str(e)[:120]), "jit:nn"))
        else:
            f = lambda o, x, y: o.condition_on_x(x).evaluate_ln(y)
            eager2 = np.asarray(f(o2, xs, ys), dtype=float)
            jf = jax.jit(f)
            try:
                j1 = np.asarray(jf(o1, xs, ys), dtype=float); j2 = np.asarray(jf(o2, xs, ys), dtype=float)
                lin.chk(fails, ["C18"], "jitted function returns another object's values (second call)", "jit:" + d["c1"]["cls"], j2, eager2)
                lin.chk(fails, ["C18"], "jitted function differs from eager (first call)", "jit:" + d["c1"]["cls"], j1, np.asarray(f(o1, xs, ys), dtype=float))
            except Exception as e:
                fails.append(lin.fail(["C18"], "jit with an object argument raises %s: %s" % (type(e).__name__, str(e)[:120]), "jit:" + d["c1"]["cls"]))
        ob.add("eager(second object)", eager2)
        return ob, fails
    if d["scn"] == "rt":
        o = build_obj(d)
        ref = observe(o, d)
        k = d["kind"]
        if k.startswith("cond_"):
            ob.nat("R", np.asarray(o.Sigma).shape[0]); ob.nat("Dy", o.Dy); ob.nat("Dx", o.Dx)
            ob.add("M", o.M if "ident" not in k else np.tile(np.eye(o.Dy)[None], (np.asarray(o.Sigma).shape[0], 1, 1)))
            ob.add("b", o.b if "ident" not in k else np.zeros((np.asarray(o.Sigma).shape[0], o.Dy)))
            ob.add("Sigma", o.Sigma); ob.add("Lambda", o.Lambda); ob.add("ln_det_Sigma", o.ln_det_Sigma)
            ob.add("cond(x).evaluate_ln(y)", ref[-1][1])
        else:
            ob.add("evaluate_ln", ref[0][1])
            C.obs_ucore(ob, o, R=np.asarray(o.ln_beta).shape[0])
        def cmp(tag, o2):
            try:
                got = observe(o2, d)
            except Exception as e:
                fails.append(lin.fail(["C18"], "%s: object unusable after round trip: %s" % (tag, type(e).__name__), k)); return
            for (n, a), (_, b) in zip(ref, got):
                if not gtlib.close(b, a):
                    fails.append(lin.fail(["C18"], "%s changes %s" % (tag, n), k, relerr=gtlib.relerr(b, a)))
        def attempt(tag, fn):
            try:
                cmp(tag, fn())
            except Exception as e:
                fails.append(lin.fail(["C18"], "%s raises %s: %s" % (tag, type(e).__name__, str(e)[:120]), k))
        attempt("tree_flatten/unflatten", lambda: (lambda lt: jax.tree_util.tree_unflatten(lt[1], lt[0]))(jax.tree_util.tree_flatten(o)))
        attempt("jit identity (argument and result)", lambda: jax.jit(lambda q: q)(o))
        attempt("lax.scan carry", lambda: jax.lax.scan(lambda c, _: (c, 0.0), o, jnp.arange(2))[0])
        if hasattr(o, "to_dict") and not k.startswith("cond_"):
            attempt("to_dict/from_dict", lambda: type(o).from_dict(o.to_dict()) if hasattr(type(o), "from_dict") else o)
        return ob, fails
    # ---- pipelines
    f = make_fn(d)
    names = theta_of(d)
    theta = {n: jarr(d[n]) for n in names}
    eager = np.asarray(f(theta), dtype=float)
    if d["pipe"] in NOMODEL:
        ob.nat("pipeline without a model term", 1)
        if not np.all(np.isfinite(eager)):
            fails.append(lin.fail(["C18"], "eager value not finite", "pipeline:" + d["pipe"]))
    else:
        ob.add("eager", eager)
    site = "pipeline:" + d["pipe"]
    # jit: parameters as traced arguments
    try:
        jout = np.asarray(jax.jit(f)(theta), dtype=float)
        lin.chk(fails, ["C18"], "jit output differs from eager", site, jout, eager)
    except Exception as e:
        fails.append(lin.fail(["C18"], "jit raises %s: %s" % (type(e).__name__, str(e)[:160]), site))
    # vmap over a data axis: three perturbed copies of the point / vector-valued inputs
    data = [n for n in names if n in ("xs", "ys", "mu", "nu", "b", "a", "fnu")]
    if data:
        n0 = data[0]
        stack = jnp.stack([theta[n0] + 0.25 * k for k in range(3)])
        try:
            vout = np.asarray(jax.vmap(lambda v: f(dict(theta, **{n0: v})))(stack), dtype=float)
            ex = np.stack([np.asarray(f(dict(theta, **{n0: stack[k]})), dtype=float) for k in range(3)])
            lin.chk(fails, ["C18"], "vmap over %s differs from the stacked eager runs" % n0, site, vout, ex)
        except Exception as e:
            fails.append(lin.fail(["C18"], "vmap raises %s: %s" % (type(e).__name__, str(e)[:160]), site))
    # reverse-mode gradient of the summed output w.r.t. every continuous parameter vs central differences.
    # Heteroscedastic bounds: their variational parameters sit under stop_gradient, so AD returns the partial derivative
    # at the returned iterate; it equals the total derivative (what central differences measure) because the iterate is
    # the optimum of the bound up to the loop's stopping tolerance 1e-5 (envelope theorem) -- hence the tolerance 1e-4
    # there.  (An earlier version of this check skipped these pipelines; that hid two genuine defects, see
    # known_findings.json: the fixed-point loop never ran, and the ReLU tangent point was not the optimum.)
    gtol = 1e-4 if (d["pipe"] == "approx" and d["kind"] not in ("lrbf", "lsem")) else 1e-5
    try:
        # weighted sum with constant weights 1/max(1,|eager_i|): every term is O(1), so that the central differences
        # are not swamped by the rounding of one huge output component
        wts = jnp.array(1.0 / np.maximum(1.0, np.abs(np.where(np.isfinite(eager), eager, 1.0))))
        s0 = lambda t: jnp.sum(f(t) * wts)
        gr = jax.grad(s0)(theta)
        s = jax.jit(s0)
        for n in names:
            g_ad = np.asarray(gr[n], dtype=float)
            base = np.asarray(theta[n], dtype=float)
            g_fd = np.zeros_like(base)
            it = np.nditer(base, flags=["multi_index"])
            cnt = 0
            for _ in it:
                idx = it.multi_index
                cnt += 1
                if cnt > 3:
                    g_fd[idx] = g_ad[idx]; continue       # spot-check three entries per parameter
                # central differences at three step sizes and their Richardson extrapolations: a single step size is either
                # rounding-limited (small h) or truncation-limited (large h, large third derivative: truncated moments) and
                # produced a borderline false alarm (1.08e-5 against 1e-5); the estimate closest to the AD value is used --
                # a wrong gradient is far from all of them
                def cd(h):
                    e = np.zeros_like(base); e[idx] = h
                    return (float(s(dict(theta, **{n: jnp.array(base + e)}))) - float(s(dict(theta, **{n: jnp.array(base - e)})))) / (2 * h)
                c4, c5, c6 = cd(1e-4), cd(1e-5), cd(1e-6)
                ests = [c6, c5, c4, (4 * cd(5e-5) - c4) / 3]
                g_fd[idx] = min(ests, key=lambda v: abs(v - g_ad[idx]))
            scale = max(1.0, float(np.max(np.abs(g_fd))))
            if not np.all(np.isfinite(g_ad)) or float(np.max(np.abs(g_ad - g_fd))) > gtol * scale:
                fails.append(lin.fail(["C18"], "gradient w.r.t. %s differs from central differences" % n, site,
                                      maxdiff=float(np.max(np.abs(g_ad - g_fd))), scale=scale))
    except Exception as e:
        fails.append(lin.fail(["C18"], "grad raises %s: %s" % (type(e).__name__, str(e)[:160]), site))
    return ob, fails
