# C19: samples follow the density's law and are reproducible.
import math
from fractions import Fraction as Fr
from .. import gtlib
from ..gtlib import cq, cvec, cmat, cb3, cseq, jarr, Obs
from . import common as C, lin

PROP = "C19"
WIDEN_MAX = 60          # extra thorough-generator cases when the anchored sources have drifted (harness/drift.py)
PROPS_FILE = "props/C19.v"
IMPORTS = "Chol"
RULE = ("cases = densities (GaussianPDF and GaussianDiagPDF) with R in 1..4, D in 1..4, Sigma = L0 L0' for a rational lower-triangular L0 with positive diagonal "
        "(strong correlations included: off-diagonal entries up to 3x the diagonal), seeded PRNG keys, n = 4 draws for the "
        "structural comparison; one statistical case per run with n = 40000 draws (supporting only); non-trivial = R*D > 1; "
        "distinct = SHA1 of the input")
EXPLANATION = ("model Sample.v: x[d,a,:] = mu_a + L_a z[d,a,:] evaluated at Qc on the key's own normal stream (jax.random.normal "
               "with the same key and shape, converted exactly) with L = L0, and the executable Cholesky predicate is_chol L0 "
               "Sigma; vs implementation sample(key, n); oracle: independent numpy Cholesky, reproducibility (same key twice), "
               "component r unchanged when the other components' parameters change; statistical moments within 6 standard "
               "errors (supporting validation, not part of the proof)")
hist = lambda d: dict(R=d["R"], D=d["D"], n=d["n"], stat=d.get("stat", False), diag=d.get("diag", False), history=bool(d.get("history")))
nontrivial = lambda d: d["R"] * d["D"] > 1
scenario = lambda d: "stat" if d.get("stat") else "structural"


def gen_case(g, R, D, n, stat=False, diag=False):
    Ls = []
    for _ in range(R):
        L = [[Fr(0)] * D for _ in range(D)]
        for i in range(D):
            L[i][i] = g.qpos()
            for j in range(i):
                L[i][j] = Fr(0) if diag else g.q(lo=-6, hi=6, dens=(1, 2))
        Ls.append(L)
    d = dict(R=R, D=D, n=n, L=Ls, mu=g.mat(R, D), seed=g.randint(0, 2 ** 31 - 1), stat=stat, diag=diag)
    if not stat and g.randint(0, 2) == 0:
        # a history on the object: sampled before, then some components replaced in place by update(idx, d), then sampled
        k = g.randint(1, R)
        idx = list(range(R)); g.shuffle(idx); idx = idx[:k]
        before = gen_case(g, R, D, n, stat=True, diag=diag)          # (stat=True: no nested history)
        d["history"] = dict(idx=[(r - R if g.randint(0, 1) else r) for r in idx], pos=idx, L=before["L"], mu=before["mu"])
    return d


def gen_descs(g, tier):
    q = tier == "quick"
    out = [gen_case(g, R, D, 4) for R in (1, 2, 4) for D in (1, 2, 3, 4) for _ in range(1 if q else 10)]
    out += [gen_case(g, g.randint(1, 4), g.randint(1, 4), 4) for _ in range(10 if q else 200)]
    # the diagonal density class (GaussianDiagPDF) with component-specific variances
    out += [gen_case(g, R, D, 4, diag=True) for R in (1, 3) for D in (1, 2, 3) for _ in range(1 if q else 6)]
    out.append(gen_case(g, 2, 3, 40000, stat=True))
    out.append(gen_case(g, 3, 2, 40000, stat=True, diag=True))
    out.append(gen_case(g, 2, 2, 70001, stat=True))          # more draws than any power-of-two block size, not a multiple of one
    return [C.J(d) for d in out]


def search_descs(g, failing, tier):
    return [C.J(gen_case(g, R, D, 2)) for R in (1, 2) for D in (1, 2)]


def sig_of(L):
    D = len(L)
    return [[sum(L[i][k] * L[j][k] for k in range(D)) for j in range(D)] for i in range(D)]


def stream(d):
    I = gtlib.impl(); jax = I["jax"]
    import numpy as np
    key = jax.random.PRNGKey(d["seed"])
    return key, np.asarray(jax.random.normal(key, (d["n"], d["R"], d["D"])), dtype=float)


def coq_term(d):
    d = C.U(d)
    if d.get("stat"):
        return "obs_chol %d %d (lb3 %s) (lb3 %s)" % (d["R"], d["D"], cb3(d["L"]), cb3([sig_of(L) for L in d["L"]]))
    _, z = stream(d)
    zq = [[[Fr(float(v)) for v in row] for row in draw] for draw in z]
    Sg = cb3([sig_of(L) for L in d["L"]])
    # the factorisation Sigma = L D L' computed by the model (proofs/Chol.v): every Cholesky factor C has C_jj^2 = d_j, C_ij = L_ij C_jj
    ldl = "flatten [seq (let f := ldl %d (lb3 %s a) in dV %d f.2 ++ dM %d %d f.1) | a <- iota 0 %d]" % (d["D"], Sg, d["D"], d["D"], d["D"], d["R"])
    return "obs_chol %d %d (lb3 %s) (lb3 %s) ++ %s ++ obs_sample %d %d %d (lb2 %s) (lb3 %s) (lz %s)" % (
        d["R"], d["D"], cb3(d["L"]), cb3([sig_of(L) for L in d["L"]]), ldl,
        d["n"], d["R"], d["D"], cmat(d["mu"]), cb3(d["L"]), cseq([cseq([cvec(r) for r in draw]) for draw in zq]))


def run_impl(d):
    import numpy as np
    d = C.U(d)
    I = gtlib.impl(); jax = I["jax"]
    ob = Obs(); fails = []
    R, D, n = d["R"], d["D"], d["n"]
    Sig = [sig_of(L) for L in d["L"]]
    PDF = I["pdf"].GaussianDiagPDF if d.get("diag") else I["pdf"].GaussianPDF
    key, z = stream(d)
    h = d.get("history")
    if h:
        R0 = R
        Sb = [sig_of(L) for L in h["L"]]; mb = [list(m) for m in h["mu"]]
        for r in range(R0):
            if r not in h["pos"]:
                Sb[r] = Sig[r]; mb[r] = d["mu"][r]
        p = PDF(Sigma=jarr(Sb), mu=jarr(mb))
        p.sample(key, n); p.sample(jax.random.PRNGKey(1), 2)
        p.update(I["jnp"].array(h["idx"]), PDF(Sigma=jarr([Sig[r] for r in h["pos"]]), mu=jarr([d["mu"][r] for r in h["pos"]])))
    else:
        p = PDF(Sigma=jarr(Sig), mu=jarr(d["mu"]))
    x = np.asarray(p.sample(key, n), dtype=float)
    ob.add("is_chol", np.ones(R), exact=True)
    if not d.get("stat"):
        # the Cholesky factor the implementation's sample() uses, against the model's L D L'
        Cf = np.asarray(I["jnp"].linalg.cholesky(p.Sigma), dtype=float)
        for a in range(R):
            dg = np.diag(Cf[a])
            ob.add("chol diag^2 [%d]" % a, dg ** 2)
            ob.add("chol / diag [%d]" % a, Cf[a] / dg[None, :])
    mu = gtlib.fl(d["mu"]); S = np.array([gtlib.fl(s) for s in Sig])
    if x.shape != (n, R, D):
        fails.append(lin.fail(["C19"], "shape of the sample array %s" % (x.shape,), "pdf.sample"))
        return ob, fails
    if d.get("stat"):
        # supporting statistical validation: mean, covariance, cross-component correlation within 6 standard errors
        for r in range(R):
            xm = x[:, r].mean(axis=0); se = np.sqrt(np.diag(S[r]) / n)
            if np.any(np.abs(xm - mu[r]) > 6 * se):
                fails.append(lin.fail(["C19"], "sample mean outside 6 standard errors", "pdf.sample"))
            xc = np.cov(x[:, r].T).reshape(D, D)
            sec = np.sqrt((np.outer(np.diag(S[r]), np.diag(S[r])) + S[r] ** 2) / n)
            if np.any(np.abs(xc - S[r]) > 6 * sec):
                fails.append(lin.fail(["C19"], "sample covariance outside 6 standard errors", "pdf.sample"))
        # independence of the n draws: no draw occurs twice (probability zero for a continuous law), and the autocorrelation of
        # the first coordinate stays within 6 / sqrt(n) at every lag up to n / 2 (FFT)
        if len(np.unique(x.reshape(n, -1), axis=0)) != n:
            fails.append(lin.fail(["C19"], "some draws are exact copies of other draws: the n draws are not independent", "pdf.sample"))
        w = (x[:, 0, 0] - mu[0][0]) / np.sqrt(S[0][0, 0])
        f = np.fft.rfft(w, 2 * n); acf = np.fft.irfft(f * np.conj(f))[1:n // 2] / n
        if np.any(np.abs(acf) > 6.0 / np.sqrt(n)):
            fails.append(lin.fail(["C19"], "autocorrelation between draws beyond 6 standard errors at lag %d" % (1 + int(np.argmax(np.abs(acf)))), "pdf.sample"))
        if R > 1:
            a = (x[:, 0] - mu[0]); b = (x[:, 1] - mu[1])
            cross = (a[:, :, None] * b[:, None, :]).mean(axis=0)
            sec = np.sqrt(np.outer(np.diag(S[0]), np.diag(S[1])) / n)
            if np.any(np.abs(cross) > 6 * sec):
                fails.append(lin.fail(["C19"], "components correlated beyond 6 standard errors", "pdf.sample"))
        return ob, fails
    ob.add("samples", x)
    # structural oracle: affine image of the key's stream through an independent Cholesky factor
    Lc = np.linalg.cholesky(S)
    ex = mu[None] + np.einsum("abc,dac->dab", Lc, z)
    lin.chk(fails, ["C19"], "draws = mu + chol(Sigma) z(key)", "pdf.sample", x, ex)
    x2 = np.asarray(p.sample(key, n), dtype=float)
    if not np.array_equal(x, x2):
        fails.append(lin.fail(["C19"], "sample(key, n) is not a deterministic function of the key", "pdf.sample"))
    if R > 1:
        # component 0 must not depend on the other components' parameters
        Sig2 = [Sig[0]] + [[[v * 4 for v in row] for row in s] for s in Sig[1:]]
        mu2 = [d["mu"][0]] + [[v + 1 for v in m] for m in d["mu"][1:]]
        p2 = PDF(Sigma=jarr(Sig2), mu=jarr(mu2))
        y = np.asarray(p2.sample(key, n), dtype=float)
        lin.chk(fails, ["C19"], "component 0 depends on other components", "pdf.sample", y[:, 0], x[:, 0])
    return ob, fails
