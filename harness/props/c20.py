# C20: truncated one-dimensional Gaussian measures integrate correctly.
import math
from fractions import Fraction as Fr
from .. import gtlib
from ..gtlib import Obs, jarr
from . import common as C, lin

PROP = "C20"
WIDEN_MAX = 150          # extra thorough-generator cases when the anchored sources have drifted (harness/drift.py)
PROPS_FILE = ["trunc/C20.v", "trunc/C20_inst.v"]
TRUSTED_EXTRA = ["standard-library axioms of the classical real numbers used by trunc/C20*.v (via Reals / Coquelicot): ClassicalDedekindReals.sig_not_dec, sig_forall_dec, FunctionalExtensionality.functional_extensionality_dep, Classical_Prop.classic",
                 "the cdf values fed to the executable model come from math.erfc (seam); the theorems treat the cdf as any function with increments RInt phiR"]
RULE = ("cases = one-dimensional measures (R in 1..3, rational standard deviation s so that the standardised limits are rational, "
        "rational information vector and log-constant) truncated to two-sided, lower-only and upper-only intervals including "
        "far-tail ones (|alpha| up to 8 standard deviations), k in 0..6; evaluated inside / outside / exactly on the limits; "
        "the normalised density obtained from the truncated measure and built directly on a (normalised or un-normalised) "
        "measure; non-trivial = R > 1 or k >= 2; distinct = SHA1 of the input")
EXPLANATION = ("model trunc/TruncGen.v (the library's closed forms: cdf difference, pdf boundary terms, moment recursion, binomial "
               "expansion, support indicator) executed at Qc with a finite table of standard normal cdf/pdf values computed "
               "independently (math.erfc / exp, converted exactly), vs implementation integrate('1'|'x'|'x**2'|'x**k') divided by "
               "the untruncated mass, __call__, get_density(), get_mean/variance; oracle: scipy.integrate.quad of x^k u(x) over "
               "[a,b], adjacent intervals add up to the untruncated integral")
HEADER = """From Coq Require Import List ZArith QArith Qcanon.
From GT Require Import TruncGen TruncExec %s.
Import ListNotations.
Local Open Scope Z_scope.
"""
KMAX = 6


def gen_case(g, R, mode, tail, far=False):
    comps = []
    for _ in range(R):
        s = g.choice([Fr(1, 2), Fr(1), Fr(3, 2), Fr(2), Fr(2, 3)])
        mu = g.q()
        if far:
            # a mean that is huge compared with the standard deviation (|mu| / s = 1e4 .. 1e6): formulas that go through raw
            # moments lose all digits of the variance there, the standardised ones do not
            mu = g.choice([-1, 1]) * Fr(10 ** g.randint(4, 6)) * s + g.q()
        lim = 8 if tail else 3
        a = mu + s * Fr(g.randint(-2 * lim, 2 * lim - 1), 2)
        b = a + s * Fr(g.randint(1, 8), 2)
        if tail:
            # far tail: both limits on the same side, several standard deviations out
            off = Fr(g.randint(8, 14), 2) * g.choice([-1, 1])
            a = mu + s * off; b = a + s * Fr(g.randint(1, 4), 2)
        comps.append(dict(s=s, mu=mu, a=None if mode == "upper" else a, b=None if mode == "lower" else b, lb=g.q()))
    return dict(scn="trunc", R=R, mode=mode, tail=tail, comps=comps, pdf=False,
                xs=[comps[0]["mu"] + comps[0]["s"] * Fr(g.randint(-8, 8), 2) for _ in range(3)])


def gen_descs(g, tier):
    q = tier == "quick"
    out = []
    for mode in ("two", "lower", "upper"):
        for R in (1, 2, 3):
            for tail in (False, True):
                for _ in range(2 if q else 40):
                    out.append(gen_case(g, R, mode, tail))
    # normalised variants: from get_density(), directly on a density, directly on an un-normalised measure
    for mode in ("two", "lower", "upper"):
        for via in ("get_density", "direct_pdf", "direct_measure"):
            for _ in range(2 if q else 30):
                d = gen_case(g, g.randint(1, 2), mode, False)
                d["pdf"] = via
                out.append(d)
    for mode in ("two", "lower", "upper"):
        for via in ("get_density", "direct_pdf"):
            for _ in range(1 if q else 10):
                d = gen_case(g, 1, mode, False, far=True)       # one component: the evaluation points are placed around ITS mean
                d["pdf"] = via; d["far"] = True
                out.append(d)
    return [C.J(d) for d in out]


def search_descs(g, failing, tier):
    return [C.J(gen_case(g, 1, m, False)) for m in ("two", "lower", "upper") for _ in range(3)]


hist = lambda d: dict(mode=d["mode"], R=d["R"], tail=d["tail"], pdf=d["pdf"], far=bool(d.get("far")))
nontrivial = lambda d: True
scenario = lambda d: "%s/%s/%s" % (d["mode"], "tail" if d["tail"] else "bulk", d["pdf"])


def Phi(x):
    return 0.5 * math.erfc(-x / math.sqrt(2.0))


def phi(x):
    return math.exp(-0.5 * x * x) / math.sqrt(2.0 * math.pi)


def cq(x):
    x = Fr(x)
    return "(q (%d) %d)" % (x.numerator, x.denominator)


def copt(x):
    return "None" if x is None else "(Some %s)" % cq(x)


def tables(d):
    keys = set()
    for c in d["comps"]:
        for l in (c["a"], c["b"]):
            if l is not None:
                keys.add((l - c["mu"]) / c["s"])
    tP = "[" + "; ".join("(%s, %s)" % (cq(k), cq(Fr(Phi(float(k))))) for k in sorted(keys)) + "]"
    tp = "[" + "; ".join("(%s, %s)" % (cq(k), cq(Fr(phi(float(k))))) for k in sorted(keys)) + "]"
    return tP, tp


def coq_term(d):
    d = C.U(d)
    tP, tp = tables(d)
    parts = []
    for c in d["comps"]:
        args = "%s %s %s %s" % (cq(c["mu"]), cq(c["s"]), copt(c["a"]), copt(c["b"]))
        if d["pdf"]:
            # normalised density: integral 1, mean, variance (get_mean / get_variance)
            parts.append("dq (E_x Qc O %s) ++ dq (Var Qc O %s)" % (args, args))
        else:
            parts.append("dq (int_1 Qc O %s) ++ dq (int_x Qc O %s) ++ dq (int_x2 Qc O %s) ++ %s" % (
                args, args, args, " ++ ".join("dq (int_xk Qc O %s %d)" % (args, k) for k in range(KMAX + 1))))
        parts.append(" ++ ".join("db (in_limits Qc O %s %s %s)" % (copt(c["a"]), copt(c["b"]), cq(x)) for x in d["xs"]))
    return "let O := qops %s %s in %s" % (tP, tp, " ++ ".join(parts))


def build(d):
    I = gtlib.impl(); jnp = I["jnp"]
    from gaussian_toolbox.experimental import truncated_measure as tmod
    comps = d["comps"]; R = d["R"]
    Lam = jarr([[[1 / (c["s"] * c["s"])]] for c in comps]); nu = jarr([[c["mu"] / (c["s"] * c["s"])] for c in comps])
    lb = jarr([c["lb"] for c in comps])
    m = I["measure"].GaussianMeasure(Lambda=Lam, nu=nu, ln_beta=lb)
    lo = None if d["mode"] == "upper" else jarr([[c["a"]] for c in comps])
    hi = None if d["mode"] == "lower" else jarr([[c["b"]] for c in comps])
    return tmod, m, lo, hi


def run_impl(d):
    import numpy as np
    from scipy import integrate as sint
    d = C.U(d)
    ob = Obs(); fails = []
    tmod, m, lo, hi = build(d)
    comps = d["comps"]; R = d["R"]
    mass = np.asarray(m.integrate(), dtype=float)
    xs = jarr([[x] for x in d["xs"]])
    u_at = np.asarray(m(xs), dtype=float)                        # [R, N] untruncated values
    A = [(-np.inf if c["a"] is None else float(c["a"])) for c in comps]; B = [(np.inf if c["b"] is None else float(c["b"])) for c in comps]
    def dens(r, x):    # normalised N(x; mu, s^2), independent of the library
        c = comps[r]; s = float(c["s"]); mu = float(c["mu"])
        return math.exp(-0.5 * ((x - mu) / s) ** 2) / (s * math.sqrt(2 * math.pi))
    def quad_k(r, k):
        c = comps[r]; s = float(c["s"]); mu = float(c["mu"])
        a, b = max(A[r], mu - 40 * s), min(B[r], mu + 40 * s)
        v, err = sint.quad(lambda x: x ** k * dens(r, x), a, b, epsabs=1e-13, epsrel=1e-13, limit=200, points=None)
        return v
    scale_k = lambda r, k: max(1.0, sint.quad(lambda x: abs(x) ** k * dens(r, x), float(comps[r]["mu"]) - 40 * float(comps[r]["s"]),
                                              float(comps[r]["mu"]) + 40 * float(comps[r]["s"]))[0])
    inl = np.array([[(A[r] <= float(x) <= B[r]) for x in d["xs"]] for r in range(R)])
    if not d["pdf"]:
        tm = tmod.TruncatedGaussianMeasure(measure=m, lower_limit=lo, upper_limit=hi)
        vals = [np.asarray(tm.integrate("1")), np.asarray(tm.integrate("x"))[:, 0], np.asarray(tm.integrate("x**2"))[:, 0]]
        vals += [np.asarray(tm.integrate("x**k", k=k))[:, 0] for k in range(KMAX + 1)]
        call = np.asarray(tm(xs), dtype=float)
        for r in range(R):
            row = [v[r] / mass[r] for v in vals]
            ob.add("comp%d.integrals/mass" % r, row)
            ob.add("comp%d.in_limits" % r, (call[r] != 0).astype(float), exact=True)
            ks = [0, 1, 2] + list(range(KMAX + 1))
            for v, k in zip(row, ks):
                ex = quad_k(r, k)
                if abs(v - ex) > 1e-8 * scale_k(r, k):
                    fails.append(lin.fail(["C20"], "integral of x^%d u(x) over [a,b]" % k, "TruncatedGaussianMeasure.integrate", None,
                                          got=float(v), exp=float(ex)))
        exp_call = np.where(inl, u_at, 0.0)
        lin.chk(fails, ["C20"], "evaluation: u(x) inside, zero outside", "TruncatedGaussianMeasure.__call__", call, exp_call)
        # adjacent intervals add up to the untruncated integral (two-sided case: (-inf,a] + [a,b] + [b,inf))
        if d["mode"] == "two":
            t1 = tmod.TruncatedGaussianMeasure(measure=m, lower_limit=None, upper_limit=lo)
            t3 = tmod.TruncatedGaussianMeasure(measure=m, lower_limit=hi, upper_limit=None)
            for expr, full in (("1", mass), ("x", np.asarray(m.integrate("x"))[:, 0]), ("x**2", np.asarray(m.integrate("xx'"))[:, 0, 0])):
                tot = sum(np.asarray(t.integrate(expr)).reshape(R) for t in (t1, tm, t3))
                lin.chk(fails, ["C20"], "adjacent intervals add up (%s)" % expr, "TruncatedGaussianMeasure.integrate", tot, full,
                        tol=1e-8)
        return ob, fails
    # ---- normalised variants
    if d["pdf"] == "get_density":
        tp = tmod.TruncatedGaussianMeasure(measure=m, lower_limit=lo, upper_limit=hi).get_density()
    elif d["pdf"] == "direct_pdf":
        tp = tmod.TruncatedGaussianPDF(measure=m.get_density(), lower_limit=lo, upper_limit=hi)
    else:
        tp = tmod.TruncatedGaussianPDF(measure=m, lower_limit=lo, upper_limit=hi)
    mean = np.asarray(tp.get_mean())[:, 0]; var = np.asarray(tp.get_variance())[:, 0]
    call = np.asarray(tp(xs), dtype=float)
    one = np.asarray(tp.integrate("1"))
    for r in range(R):
        ob.add("comp%d.mean" % r, [mean[r]]); ob.add("comp%d.var" % r, [var[r]])     # separately: each on its own scale
        ob.add("comp%d.in_limits" % r, (call[r] != 0).astype(float), exact=True)
        Z = quad_k(r, 0)
        # central quadrature (raw moments would cancel catastrophically when |mu| >> s)
        mu0 = float(comps[r]["mu"]); s0 = float(comps[r]["s"])
        a0, b0 = max(A[r], mu0 - 40 * s0), min(B[r], mu0 + 40 * s0)
        c1 = sint.quad(lambda x: (x - mu0) * dens(r, x), a0, b0, epsabs=1e-13, epsrel=1e-13, limit=200)[0] / Z
        c2 = sint.quad(lambda x: (x - mu0) ** 2 * dens(r, x), a0, b0, epsabs=1e-13, epsrel=1e-13, limit=200)[0] / Z
        lin.chk(fails, ["C20"], "truncated mean", "TruncatedGaussianPDF.get_mean", mean[r] - mu0, c1)
        lin.chk(fails, ["C20"], "truncated variance", "TruncatedGaussianPDF.get_variance", var[r], c2 - c1 ** 2)
        lin.chk(fails, ["C20"], "truncated standard deviation", "TruncatedGaussianPDF.get_std", np.asarray(tp.get_std())[r, 0] ** 2, var[r])
        expc = np.array([dens(r, float(x)) / Z if inl[r][i] else 0.0 for i, x in enumerate(d["xs"])])
        if not d.get("far"):
            # (far means: the natural-parameter form -x'Lambda x/2 + nu x + ln beta cancels ~12 digits in float64 -- rounding, not modelled)
            lin.chk(fails, ["C20"], "density = u(x) / truncated mass inside, zero outside (%s)" % d["pdf"], "TruncatedGaussianPDF.__call__", call[r], expc)
    lin.chk(fails, ["C20"], "normalised truncated density integrates to one", "TruncatedGaussianPDF.integrate", one, np.ones(R))
    return ob, fails
