# Builders shared by the property modules: rational descriptions -> implementation objects and
# Coq terms, and the standard observation lists (mirrors of run/Driver.v obs_* functions).
from fractions import Fraction as Fr
from .. import gtlib
from ..gtlib import cq, cvec, cmat, cb3, cnat, cbool, fromlist, tolist, jarr, Obs


# ---------------------------------------------------------------- generation
def gen_measure(g, R, D, diag=False):
    return dict(R=R, D=D, Lam=[(g.diag_spd(D) if diag else g.spd(D)) for _ in range(R)],
                nu=g.mat(R, D), lb=g.vec(R), diag=diag)


def specialise_pdf(g, d):
    """every fifth density gets SPECIAL values (random rationals almost never produce them): zero mean, identity or
    diagonal covariance, identical components, one coordinate with zero mean"""
    if g.randint(0, 4):
        return d
    R, D = d["R"], d["D"]
    kind = g.choice(["zero_mu", "identity_S", "equal_comps", "diag_S", "zero_coord"])
    one = lambda i, j: Fr(int(i == j))
    if kind == "zero_mu":
        d["mu"] = [[Fr(0)] * D for _ in range(R)]
    elif kind == "identity_S":
        d["Sig"] = [[[one(i, j) for j in range(D)] for i in range(D)] for _ in range(R)]
    elif kind == "equal_comps":
        d["Sig"] = [d["Sig"][0] for _ in range(R)]; d["mu"] = [d["mu"][0] for _ in range(R)]
    elif kind == "diag_S":
        d["Sig"] = [[[S[i][j] if i == j else Fr(0) for j in range(D)] for i in range(D)] for S in d["Sig"]]
    else:
        k = g.randint(0, D - 1)
        d["mu"] = [[(Fr(0) if i == k else m[i]) for i in range(D)] for m in d["mu"]]
    d["special"] = kind
    return d


def gen_pdf(g, R, D, diag=False, integer=False):
    if integer:
        return specialise_pdf(g, dict(R=R, D=D, Sig=[g.spd(D, integer=True) for _ in range(R)],
                                      mu=[[Fr(g.randint(-2, 2)) for _ in range(D)] for _ in range(R)], diag=False))
    return specialise_pdf(g, dict(R=R, D=D, Sig=[(g.diag_spd(D) if diag else g.spd(D)) for _ in range(R)], mu=g.mat(R, D), diag=diag))


def gen_factor(g, kind, R, D):
    if kind == "general":
        return dict(kind=kind, R=R, D=D, Lam=[g.spd(D) for _ in range(R)], nu=g.mat(R, D), lb=g.vec(R))
    if kind == "onerank":
        return dict(kind=kind, R=R, D=D, v=g.mat(R, D), g=[g.qpos() for _ in range(R)], nu=g.mat(R, D), lb=g.vec(R))
    if kind == "linear":
        return dict(kind=kind, R=R, D=D, nu=g.mat(R, D), lb=g.vec(R))
    if kind == "constant":
        return dict(kind=kind, R=R, D=D, lb=g.vec(R))
    if kind == "measure":
        d = gen_measure(g, R, D); d["kind"] = kind; return d
    if kind == "pdf":
        d = gen_pdf(g, R, D); d["kind"] = kind; return d
    raise ValueError(kind)


def neg_weights(g, u, f):
    """a rank-one factor exp(-g (v'x)^2 / 2 + ...) with NEGATIVE weight g is a legitimate conjugate factor as long as the
    product with the measure keeps a positive definite precision: in a third of the pairings some weights become
    -2^-k with 2^-k <= lambda_min(Lambda_u) / (2 v'v) (so that 1 + g v'Sigma v >= 1/2)"""
    if f.get("kind") != "onerank" or g.randint(0, 2):
        return f
    import numpy as np
    if "Lam" in u:
        lam = min(float(np.linalg.eigvalsh(gtlib.fl(L)).min()) for L in u["Lam"])
    else:
        lam = min(1.0 / float(np.linalg.eigvalsh(gtlib.fl(S)).max()) for S in u["Sig"])
    for j, v in enumerate(f["v"]):
        vv = float(sum(x * x for x in v))
        if vv == 0 or g.randint(0, 1):
            continue
        k = 0
        while 2.0 ** (-k) > lam / (2 * vv):
            k += 1
        f["g"][j] = -Fr(1, 2 ** k)
    return f


def J(d):
    """desc -> JSON-able (Fractions to pairs)."""
    if isinstance(d, dict):
        return {k: J(v) for k, v in d.items()}
    return tolist(d)


def U(d):
    """JSON-able -> desc with Fractions."""
    if isinstance(d, dict):
        return {k: U(v) for k, v in d.items()}
    return fromlist(d)


# ---------------------------------------------------------------- implementation objects
def impl_measure(m):
    I = gtlib.impl()
    cls = I["measure"].GaussianDiagMeasure if m.get("diag") else I["measure"].GaussianMeasure
    return cls(Lambda=jarr(m["Lam"]), nu=jarr(m["nu"]), ln_beta=jarr(m["lb"]))


def impl_pdf(p, with_lambda=False):
    I = gtlib.impl()
    cls = I["pdf"].GaussianDiagPDF if p.get("diag") else I["pdf"].GaussianPDF
    return cls(Sigma=jarr(p["Sig"]), mu=jarr(p["mu"]))


def impl_factor(f):
    I = gtlib.impl()
    F = I["factor"]
    k = f["kind"]
    if k == "general":
        return F.ConjugateFactor(Lambda=jarr(f["Lam"]), nu=jarr(f["nu"]), ln_beta=jarr(f["lb"]))
    if k == "onerank":
        return F.OneRankFactor(v=jarr(f["v"]), g=jarr(f["g"]), nu=jarr(f["nu"]), ln_beta=jarr(f["lb"]))
    if k == "linear":
        return F.LinearFactor(nu=jarr(f["nu"]), ln_beta=jarr(f["lb"]))
    if k == "constant":
        return F.ConstantFactor(ln_beta=jarr(f["lb"]), num_dim=f["D"])
    if k == "measure":
        return impl_measure(f)
    if k == "pdf":
        return impl_pdf(f)
    raise ValueError(k)


# ---------------------------------------------------------------- Coq terms
def coq_measure(m):
    cls = "CDiagMeas" if m.get("diag") else "CMeas"
    return "(@mk_measure _ LQ %s %d %d (lb3 %s) (lb2 %s) (ll %s) None None None)" % (
        cls, m["R"], m["D"], cb3(m["Lam"]), cmat(m["nu"]), cvec(m["lb"]))


def coq_pdf(p):
    return "(@mk_pdf _ LQ %s %d %d (lb3 %s) (lb2 %s) None None)" % (
        cbool(bool(p.get("diag"))), p["R"], p["D"], cb3(p["Sig"]), cmat(p["mu"]))


def coq_factor(f):
    k = f["kind"]
    R, D = f["R"], f["D"]
    if k == "general":
        return "(mk_general %d %d (lb3 %s) (lb2 %s) (ll %s))" % (R, D, cb3(f["Lam"]), cmat(f["nu"]), cvec(f["lb"]))
    if k == "onerank":
        return "(mk_onerank %d %d (lb2 %s) (lv %s) (lb2 %s) (ll %s))" % (R, D, cmat(f["v"]), cvec(f["g"]), cmat(f["nu"]), cvec(f["lb"]))
    if k == "linear":
        return "(mk_linear %d %d (lb2 %s) (ll %s))" % (R, D, cmat(f["nu"]), cvec(f["lb"]))
    if k == "constant":
        return "(mk_constant %d %d (ll %s))" % (R, D, cvec(f["lb"]))
    if k == "measure":
        return "(factor_of_measure %s)" % coq_measure(f)
    if k == "pdf":
        return "(factor_of_measure %s)" % coq_pdf(f)
    raise ValueError(k)


# ---------------------------------------------------------------- observations (mirror Driver.v)
def attr(o, name):
    return getattr(o, name, None)


def obs_ueval(ob, o, xs, tag=""):
    ob.add(tag + "evaluate_ln", o.evaluate_ln(jarr(xs)))


def obs_ucore(ob, o, tag="", R=None):
    import numpy as np
    Lam = np.asarray(o.Lambda)
    ob.nat(tag + "R", o.R if R is None else R)
    ob.nat(tag + "D", o.D)
    ob.add(tag + "Lambda", o.Lambda)
    ob.add(tag + "nu", o.nu)
    ob.add(tag + "ln_beta", o.ln_beta)


def obs_ucache(ob, o, tag=""):
    names = ["Sigma", "ln_det_Sigma", "ln_det_Lambda", "mu", "lnZ"]
    vals = [attr(o, n) for n in names]
    for n, v in zip(names, vals):
        ob.flag(tag + n + "?", v is not None)
    for n, v in zip(names, vals):
        if v is not None:
            ob.add(tag + n, v)


def snapshot(o):
    """Public parameters of an operand incl. which caches are populated (for immutability)."""
    import numpy as np
    out = {}
    for n in ["Lambda", "nu", "ln_beta", "Sigma", "ln_det_Sigma", "ln_det_Lambda", "mu", "lnZ", "v", "g"]:
        v = getattr(o, n, None)
        out[n] = None if v is None else np.array(v, dtype=float).copy()
    return out


def snap_equal(a, b):
    import numpy as np
    for k in a:
        if (a[k] is None) != (b[k] is None):
            return k
        if a[k] is not None and not (a[k].shape == b[k].shape and np.array_equal(a[k], b[k])):
            return k
    return None
