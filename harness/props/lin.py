# Shared scenario library for the linear-Gaussian core (C02, C04-C10, C12, C13, C15):
# generators, implementation builders, Coq terms, numpy oracles.  Each property module selects
# scenarios and the oracle failures that concern it (fail["props"]).
import math
from fractions import Fraction as Fr
from .. import gtlib
from ..gtlib import cq, cvec, cmat, cb3, cnat, cbool, cseq, cints, cnats, jarr, Obs, HL2P
from . import common as C

SETY_KEY = "set_y-Dx-normaliser"


# ------------------------------------------------------------------ exact linear algebra
def finv(A):
    n = len(A)
    M = [list(map(Fr, r)) + [Fr(int(i == j)) for j in range(n)] for i, r in enumerate(A)]
    for c in range(n):
        p = next(r for r in range(c, n) if M[r][c] != 0)
        M[c], M[p] = M[p], M[c]
        pv = M[c][c]
        M[c] = [x / pv for x in M[c]]
        for r in range(n):
            if r != c and M[r][c] != 0:
                f = M[r][c]
                M[r] = [a - f * b for a, b in zip(M[r], M[c])]
    return [r[n:] for r in M]


def fdet(A):
    n = len(A)
    M = [list(map(Fr, r)) for r in A]
    d = Fr(1)
    for c in range(n):
        p = next((r for r in range(c, n) if M[r][c] != 0), None)
        if p is None:
            return Fr(0)
        if p != c:
            M[c], M[p] = M[p], M[c]
            d = -d
        d *= M[c][c]
        for r in range(c + 1, n):
            f = M[r][c] / M[c][c]
            M[r] = [a - f * b for a, b in zip(M[r], M[c])]
    return d


def fmm(A, B):
    return [[sum(A[i][k] * B[k][j] for k in range(len(B))) for j in range(len(B[0]))] for i in range(len(A))]


# ------------------------------------------------------------------ numpy oracles
def np_():
    import numpy as np
    return np


def logN(x, mu, Sig):
    """log N(x; mu, Sig) for x [N,D], mu [D], Sig [D,D] by solve/slogdet (independent of the library)."""
    np = np_()
    d = x - mu[None]
    sol = np.linalg.solve(Sig, d.T).T
    return -0.5 * np.sum(d * sol, axis=1) - 0.5 * (len(mu) * math.log(2 * math.pi) + np.linalg.slogdet(Sig)[1])


def fail(props, what, site, key=None, **kw):
    d = dict(props=props, what=what, site=site, key=key)
    d.update(kw)
    return d


def chk(fails, props, what, site, got, exp, key=None, tol=gtlib.TOL):
    np = np_()
    got = np.asarray(got, dtype=float)
    exp = np.asarray(exp, dtype=float)
    if not gtlib.close(got, exp, tol=tol):
        fails.append(fail(props, what, site, key, relerr=gtlib.relerr(got, exp),
                          shape_got=list(got.shape), shape_exp=list(exp.shape)))
        return False
    return True


def consistency(fails, o, site, props=("C04",), pdf=False):
    """C04: every exposed cache matches Lambda / nu (true inverse, true log-determinant)."""
    np = np_()
    props = list(props)
    Lam = np.asarray(o.Lambda, dtype=float)
    R, D = Lam.shape[0], Lam.shape[1]
    nu = np.asarray(o.nu, dtype=float)
    Sig = getattr(o, "Sigma", None)
    if Sig is not None:
        Sig = np.asarray(Sig, dtype=float)
        chk(fails, props, "Sigma@Lambda=I", site, np.einsum("abc,acd->abd", Sig, Lam), np.tile(np.eye(D)[None], (R, 1, 1)))
        ld = np.linalg.slogdet(Sig)[1]
        if getattr(o, "ln_det_Sigma", None) is not None:
            chk(fails, props, "ln_det_Sigma=slogdet(Sigma)", site, o.ln_det_Sigma, ld)
        if getattr(o, "ln_det_Lambda", None) is not None:
            chk(fails, props, "ln_det_Lambda=-slogdet(Sigma)", site, o.ln_det_Lambda, -ld)
        mu = getattr(o, "mu", None)
        if mu is not None:
            chk(fails, props, "mu=Sigma nu", site, mu, np.einsum("abc,ac->ab", Sig, nu))
        lnZ = getattr(o, "lnZ", None)
        if lnZ is not None:
            ex = 0.5 * (np.einsum("ab,abc,ac->a", nu, Sig, nu) + D * math.log(2 * math.pi) + ld)
            chk(fails, props, "lnZ=Gaussian normaliser", site, lnZ, ex)
            if pdf:
                chk(fails, props + ["C02"], "ln_beta=-lnZ (density)", site, o.ln_beta, -ex)


def cond_consistency(fails, c, site, props=("C04",)):
    np = np_()
    props = list(props)
    Sig = np.asarray(c.Sigma, dtype=float)
    Lam = np.asarray(c.Lambda, dtype=float)
    R, D = Sig.shape[0], Sig.shape[1]
    chk(fails, props, "cond Sigma@Lambda=I", site, np.einsum("abc,acd->abd", Sig, Lam), np.tile(np.eye(D)[None], (R, 1, 1)))
    chk(fails, props, "cond ln_det_Sigma=slogdet(Sigma)", site, c.ln_det_Sigma, np.linalg.slogdet(Sig)[1])


def is_normal(fails, o, mu, Sig, xs, site, props):
    """the object evaluates to N(mu_r, Sig_r) at the points xs: mu [R,D], Sig [R,D,D] expected values"""
    np = np_()
    ev = np.asarray(o.evaluate_ln(jarr(xs)), dtype=float)
    x = gtlib.fl(xs)
    ex = np.stack([logN(x, mu[r], Sig[r]) for r in range(len(mu))])
    return chk(fails, list(props), "evaluates to the normal log-density", site, ev, ex)


# ------------------------------------------------------------------ conditionals
CLS = ["full", "diag", "ident", "identdiag", "nn"]
COQ_CLS = dict(full="CFull", diag="CDiag", ident="CIdent", identdiag="CIdentDiag", nn="CFull")


def gen_cond(g, cls, R, Dy, Dx, ctor=None):
    diag = cls in ("diag", "identdiag")
    if cls in ("ident", "identdiag"):
        Dx = Dy
    d = dict(cls=cls, R=R, Dy=Dy, Dx=Dx, ctor=ctor or g.choice(["Sigma", "Sigma", "Lambda", "all", "Sigma+Lambda"]))
    d["Sig"] = [(g.diag_spd(Dy) if diag else g.spd(Dy)) for _ in range(R)]
    if cls == "nn":
        # control function u -> u W + c0 (rational), evaluated at u [Ru, Du]; the class itself has R = 1
        Du = g.randint(1, 2)
        d.update(R=1, Du=Du, Ru=R, W=g.mat(Du, Dy * (Dx + 1)), c0=g.vec(Dy * (Dx + 1)), u=g.mat(R, Du),
                 Sig=d["Sig"][:1], ctor="Sigma")
        out = [[sum(d["u"][r][k] * d["W"][k][j] for k in range(Du)) + d["c0"][j] for j in range(Dy * (Dx + 1))] for r in range(R)]
        d["M"] = [[[out[r][i * Dx + j] for j in range(Dx)] for i in range(Dy)] for r in range(R)]
        d["b"] = [out[r][Dy * Dx:] for r in range(R)]
    elif cls in ("full", "diag"):
        d["M"] = [g.mat(Dy, Dx) for _ in range(R)]
        d["b"] = g.mat(R, Dy) if g.randint(0, 3) else None
    k = g.randint(0, 9)
    if k == 0 and cls in ("full", "diag"):
        d["f32_Mb"] = True                               # M, b handed over as float32 arrays (when exactly representable)
    elif k == 1 and cls != "nn":
        d["np_params"] = True; d["twice"] = True         # numpy parameters, the scenario run twice on the same object
    # every fifth conditional gets SPECIAL values: a zero row / a zero matrix M, zero offset, identity noise, identical components
    if g.randint(0, 4) == 0:
        kind = g.choice(["zero_M_row", "zero_M", "zero_b", "identity_Sig", "equal_comps"])
        Rn = len(d["Sig"])
        if kind == "identity_Sig":
            d["Sig"] = [[[Fr(int(i == j)) for j in range(Dy)] for i in range(Dy)] for _ in range(Rn)]
        elif kind == "equal_comps":
            d["Sig"] = [d["Sig"][0] for _ in range(Rn)]
        elif cls in ("full", "diag"):
            if kind == "zero_M_row":
                k = g.randint(0, Dy - 1)
                d["M"] = [[([Fr(0)] * Dx if i == k else row) for i, row in enumerate(Mr)] for Mr in d["M"]]
            elif kind == "zero_M":
                d["M"] = [[[Fr(0)] * Dx for _ in range(Dy)] for _ in d["M"]]
            elif d.get("b") is not None:
                d["b"] = [[Fr(0)] * Dy for _ in d["b"]]
        d["special"] = kind
    # every fourth conditional was built with ANOTHER covariance and brought to this one by update_Sigma(...)
    # (a multi-step history: all cached quantities must be those of the new covariance)
    if g.randint(0, 2) == 0:
        d["Sig0"] = [(g.diag_spd(Dy) if diag else g.spd(Dy)) for _ in range(1 if cls == "nn" else R)]
    return d


def cond_R(d):
    return d["Ru"] if d["cls"] == "nn" else d["R"]


def cond_Mb(d, r):
    """effective exact M_r, b_r"""
    Dy, Dx = d["Dy"], d["Dx"]
    if d["cls"] in ("ident", "identdiag"):
        return [[Fr(int(i == j)) for j in range(Dx)] for i in range(Dy)], [Fr(0)] * Dy
    b = d["b"][r] if d.get("b") is not None else [Fr(0)] * Dy
    return d["M"][r], b


def cond_Sig(d, r):
    return d["Sig"][0] if d["cls"] == "nn" else d["Sig"][r]


# ---- object histories ------------------------------------------------------------------------------------------------
# An object with a HISTORY was built in another state, went through the scenario's own calls once (dry run: every lazily
# filled or memoised quantity is now populated), was then mutated in place by the library's mutators (update_Sigma of a
# conditional, update(idx, d) of a density) and goes through the scenario a second time, which is the run that is
# observed.  with_history(run) drives this: mode "before" builds the before-state objects and remembers them, then the
# pending mutations are applied, and mode "reuse" hands the very same Python objects (and the same control array u) to
# the scenario again.  The model side is the pure function of the final parameters (Cond.update_Sigma, Measure.pdf_update).
_MODE = [None]
_MEMO = {}
_PENDING = []


def _fp(x):
    import json
    return json.dumps(C.J(x), sort_keys=True)


def has_history(d):
    if isinstance(d, dict):
        if d.get("Sig0") is not None or d.get("upd") is not None or d.get("twice"):
            return True
        return any(has_history(v) for v in d.values())
    if isinstance(d, list):
        return any(has_history(v) for v in d)
    return False


PREC_FLAGS = ("f32_Mb", "f32_mu")


def _has_prec(x):
    if isinstance(x, dict):
        return any((k in PREC_FLAGS and v) or _has_prec(v) for k, v in x.items())
    if isinstance(x, (list, tuple)):
        return any(_has_prec(v) for v in x)
    return False


def _strip_prec(x):
    if isinstance(x, dict):
        return {k: _strip_prec(v) for k, v in x.items() if k not in PREC_FLAGS}
    if isinstance(x, list):
        return [_strip_prec(v) for v in x]
    return x


def with_history(run):
    hist_run = _with_history(run)
    def wrapped(d):
        """+ precision invariance: parameters handed over as float32 arrays (values exactly representable) are ordinary
        inputs of a float64 computation -- every observation must agree with the all-float64 run up to rounding
        (a silent down-cast of a float64 operand costs >= 1e-9)"""
        ob, fails = hist_run(d)
        dU = C.U(d)
        if _has_prec(dU):
            ob2, _ = hist_run(C.J(_strip_prec(dU)))
            for (n1, a1, _), (n2, a2, _) in zip(ob.items, ob2.items):
                if n1 != n2 or not gtlib.close(a1, a2, tol=1e-10):
                    fails.append(fail(["*"], "a parameter given as a float32 array (exactly representable values) changes the float64 result beyond "
                                      "rounding: %s" % n1, "precision", None, relerr=(gtlib.relerr(a1, a2) if a1.shape == a2.shape else None)))
                    break
        return ob, fails
    return wrapped


def _with_history(run):
    def wrapped(d):
        dU = C.U(d)
        if not has_history(dU):
            return run(d)
        _MEMO.clear(); del _PENDING[:]
        _MODE[0] = "before"
        try:
            run(d)                      # dry run on the before-state objects (result discarded)
            for fn in _PENDING:         # in-place mutations
                fn()
            _MODE[0] = "reuse"
            return run(d)
        finally:
            _MODE[0] = None; _MEMO.clear(); del _PENDING[:]
    return wrapped


def impl_cond(d):
    """returns (object, kwargs for every method call) -- the NN class needs u= on every call"""
    key = ("cond", _fp(d))
    if _MODE[0] == "reuse" and key in _MEMO:
        return _MEMO[key]
    if _MODE[0] == "before" and key in _MEMO:
        return _MEMO[key]
    if d.get("Sig0") is not None:
        d0 = dict(d); d0["Sig"] = d["Sig0"]; d0["Sig0"] = None
        o, kw = _build_cond(d0)
        if _MODE[0] == "before":
            _MEMO[key] = (o, kw)
            _PENDING.append(lambda o=o, S=d["Sig"]: o.update_Sigma(jarr(S)))
        else:
            o.update_Sigma(jarr(d["Sig"]))
        return o, kw
    o, kw = _build_cond(d)
    if _MODE[0] == "before":
        _MEMO[key] = (o, kw)
    return o, kw


def _flat(x):
    for y in x:
        if isinstance(y, (list, tuple)):
            yield from _flat(y)
        else:
            yield y


def _build_cond(d):
    I = gtlib.impl()
    cm = I["conditional"]
    jnp = I["jnp"]
    cls = d["cls"]
    kw = {}
    arr = gtlib.fl if d.get("np_params") else jarr
    def mb(x):
        """M and b: numpy, float32 (when every entry is exactly representable) or float64 jax arrays"""
        if d.get("f32_Mb") and all(Fr(float(jnp.float32(float(v)))) == v for v in _flat(x)):
            return jnp.array(gtlib.fl(x), dtype=jnp.float32)
        return arr(x)
    if d["ctor"] == "Sigma":
        kw = dict(Sigma=arr(d["Sig"]))
    elif d["ctor"] == "Lambda":
        kw = dict(Lambda=jarr([finv(S) for S in d["Sig"]]))
    elif d["ctor"] == "Sigma+Lambda":          # both given, the log-determinant left to the constructor
        kw = dict(Sigma=jarr(d["Sig"]), Lambda=jarr([finv(S) for S in d["Sig"]]))
    else:
        kw = dict(Sigma=jarr(d["Sig"]), Lambda=jarr([finv(S) for S in d["Sig"]]),
                  ln_det_Sigma=jnp.array([math.log(fdet(S)) for S in d["Sig"]]))
    if cls == "full":
        return cm.ConditionalGaussianPDF(M=mb(d["M"]), b=None if d["b"] is None else mb(d["b"]), **kw), {}
    if cls == "diag":
        return cm.ConditionalGaussianDiagPDF(M=mb(d["M"]), b=None if d["b"] is None else mb(d["b"]), **kw), {}
    if cls == "ident":
        return cm.ConditionalIdentityGaussianPDF(**kw), {}
    if cls == "identdiag":
        return cm.ConditionalIdentityDiagGaussianPDF(**kw), {}
    if cls == "nn":
        W, c0 = jarr(d["W"]), jarr(d["c0"])
        f = lambda u: u @ W + c0[None]
        o = cm.NNControlGaussianConditional(Sigma=jarr(d["Sig"]), num_cond_dim=d["Dx"], num_control_dim=d["Du"], control_func=f)
        return o, dict(u=jarr(d["u"]))
    raise ValueError(cls)


def coq_cond(d):
    if d.get("Sig0") is not None and d["cls"] != "nn":
        d0 = dict(d); d0["Sig"] = d["Sig0"]; d0["Sig0"] = None
        return "(update_Sigma %s (lb3 %s))" % (coq_cond(d0), cb3(d["Sig"]))
    cls = d["cls"]
    R, Dy, Dx = d["R"], d["Dy"], d["Dx"]
    S = "(Some (lb3 %s))" % cb3(d["Sig"])
    if d["ctor"] == "Sigma":
        args = "%s None None" % S
    elif d["ctor"] == "Lambda":
        args = "None (Some (lb3 %s)) None" % cb3([finv(x) for x in d["Sig"]])
    elif d["ctor"] == "Sigma+Lambda":
        args = "%s (Some (lb3 %s)) None" % (S, cb3([finv(x) for x in d["Sig"]]))
    else:
        args = "%s (Some (lb3 %s)) (Some (lh %s))" % (S, cb3([finv(x) for x in d["Sig"]]), cvec([fdet(x) for x in d["Sig"]]))
    if cls in ("ident", "identdiag"):
        return "(mk_cond %s %d %d %d (fun _ => mid) (fun _ => vzero) %s)" % (COQ_CLS[cls], R, Dy, Dx, args)
    if cls == "nn":
        base = "(mk_cond CFull 1 %d %d (fun _ => mzero) (fun _ => vzero) %s)" % (Dy, Dx, args)
        if d.get("Sig0") is not None:      # update_Sigma acts on the control conditional itself (before the control is set)
            base0 = "(mk_cond CFull 1 %d %d (fun _ => mzero) (fun _ => vzero) (Some (lb3 %s)) None None)" % (Dy, Dx, cb3(d["Sig0"]))
            base = "(update_Sigma %s (lb3 %s))" % (base0, cb3(d["Sig"]))
        return "(nn_set_control %s %d (lb3 %s) (lb2 %s))" % (base, d["Ru"], cb3(d["M"]), cmat(d["b"]))
    b = "(fun _ => vzero)" if d["b"] is None else "(lb2 %s)" % cmat(d["b"])
    return "(mk_cond %s %d %d %d (lb3 %s) %s %s)" % (COQ_CLS[cls], R, Dy, Dx, cb3(d["M"]), b, args)


def obs_cond(ob, c, tag="", R=None, Mb=True):
    np = np_()
    Sig = np.asarray(c.Sigma)
    ob.nat(tag + "R", Sig.shape[0] if R is None else R)
    ob.nat(tag + "Dy", c.Dy)
    ob.nat(tag + "Dx", c.Dx)
    if Mb:
        ob.add(tag + "M", c.M)
        ob.add(tag + "b", c.b)
    ob.add(tag + "Sigma", c.Sigma)
    ob.add(tag + "Lambda", c.Lambda)
    ob.add(tag + "ln_det_Sigma", c.ln_det_Sigma)


def obs_all(ob, o, xs, tag=""):
    np = np_()
    ev = np.asarray(o.evaluate_ln(jarr(xs)))
    ob.add(tag + "evaluate_ln", ev)
    C.obs_ucore(ob, o, tag, R=np.asarray(o.ln_beta).shape[0])
    C.obs_ucache(ob, o, tag)
    return ev


# ------------------------------------------------------------------ pdf with constructor variants
def gen_pdfv(g, R, D, diag=False, ctor=None, history=False):
    d = C.gen_pdf(g, R, D, diag=diag)
    d["ctor"] = ctor or g.choice(["Sigma", "Sigma", "Sigma+Lambda", "all"])
    if g.randint(0, 5) == 0:
        d["f32_mu"] = True          # the mean handed over as a float32 array
    elif g.randint(0, 7) == 0:
        d["np_params"] = True; d["twice"] = True      # numpy parameters, the scenario run twice on the same object
    if history and g.randint(0, 3) == 0:
        # built with OTHER components at some positions, which update(idx, new) then replaces in place
        k = g.randint(1, R)
        pos = list(range(R)); g.shuffle(pos); pos = pos[:k]
        other = C.gen_pdf(g, R, D, diag=diag)
        d["upd"] = dict(pos=pos, idx=[(r - R if g.randint(0, 1) else r) for r in pos],
                        Sig=[other["Sig"][r] for r in pos], mu=[other["mu"][r] for r in pos])
        d.pop("np_params", None)        # update() uses the jax .at[] interface: it is defined for jax arrays only
    return d


def _pdf_before(p):
    """the description of the object before its in-place update"""
    b = {k: v for k, v in p.items() if k != "upd"}
    b["Sig"] = list(p["Sig"]); b["mu"] = list(p["mu"])
    for j, r in enumerate(p["upd"]["pos"]):
        b["Sig"][r] = p["upd"]["Sig"][j]; b["mu"][r] = p["upd"]["mu"][j]
    return b


def _pdf_new(p):
    pos = p["upd"]["pos"]
    return dict(R=len(pos), D=p["D"], Sig=[p["Sig"][r] for r in pos], mu=[p["mu"][r] for r in pos], diag=p.get("diag"), ctor="Sigma")


def impl_pdfv(p):
    key = ("pdf", _fp(p))
    if _MODE[0] in ("reuse", "before") and key in _MEMO:
        return _MEMO[key]
    if p.get("upd") is not None:
        jnp = gtlib.impl()["jnp"]
        pb = _pdf_before(p)
        if p.get("f32_mu") and not all(Fr(float(jnp.float32(float(v)))) == v for m in p["mu"] for v in m):
            pb["f32_mu"] = False      # update() writes into the array it finds: a float32 mean would round the new float64 values
        o = _build_pdfv(pb)
        mut = lambda o=o: o.update(jnp.array(p["upd"]["idx"]), _build_pdfv(_pdf_new(p)))
        if _MODE[0] == "before":
            _MEMO[key] = o
            _PENDING.append(mut)
        else:
            mut()
        return o
    o = _build_pdfv(p)
    if _MODE[0] == "before":
        _MEMO[key] = o
    return o


def _build_pdfv(p):
    I = gtlib.impl()
    jnp = I["jnp"]
    cls = I["pdf"].GaussianDiagPDF if p.get("diag") else I["pdf"].GaussianPDF
    arr = gtlib.fl if p.get("np_params") else jarr        # numpy arrays are accepted too; an in-place numpy operation would show
    kw = dict(Sigma=arr(p["Sig"]), mu=arr(p["mu"]))
    if p.get("f32_mu") and all(Fr(float(jnp.float32(float(v)))) == v for m in p["mu"] for v in m):
        # the mean as a float32 array (every value is exactly representable): results must still be float64-exact, the
        # narrower dtype must not be inherited downstream  (an integer-typed mean is outside the library's Float[...] contract)
        kw["mu"] = jnp.array(gtlib.fl(p["mu"]), dtype=jnp.float32)
    if p.get("ctor", "Sigma") in ("Sigma+Lambda", "all"):
        kw["Lambda"] = jarr([finv(S) for S in p["Sig"]])
    if p.get("ctor") == "all":
        kw["ln_det_Sigma"] = jnp.array([math.log(fdet(S)) for S in p["Sig"]])
    return cls(**kw)


def coq_pdfv(p):
    if p.get("upd") is not None:
        return "(pdf_update %s %s %s)" % (gtlib.cints(p["upd"]["idx"]), coq_pdfv(_pdf_before(p)), coq_pdfv(_pdf_new(p)))
    ctor = p.get("ctor", "Sigma")
    if p.get("diag") and p["D"] >= 30 and ctor == "Sigma":
        # high-dimensional diagonal density: a compact literal (the dense one overflows coqc's stack)
        dg = cseq([cvec([S[i][i] for i in range(p["D"])]) for S in p["Sig"]])
        return "(@mk_pdf _ LQ true %d %d (fun r => mdiagv (lv (nth [::] %s r))) (lb2 %s) None None)" % (p["R"], p["D"], dg, cmat(p["mu"]))
    L = "None" if ctor == "Sigma" else "(Some (lb3 %s))" % cb3([finv(S) for S in p["Sig"]])
    h = "(Some (lh %s))" % cvec([fdet(S) for S in p["Sig"]]) if ctor == "all" else "None"
    return "(@mk_pdf _ LQ %s %d %d (lb3 %s) (lb2 %s) %s %s)" % (
        cbool(bool(p.get("diag"))), p["R"], p["D"], cb3(p["Sig"]), cmat(p["mu"]), L, h)


def npS(p):
    np = np_()
    return np.array([gtlib.fl(S) for S in p["Sig"]]), gtlib.fl(p["mu"])


# ------------------------------------------------------------------ scenarios
def _decoy(dc, ckw, call):
    """ANOTHER instance of the same class with other parameters serves a request with the VERY SAME argument objects first
    (the control array u included): state shared between instances -- a class-level or module-level cache keyed by the
    argument's identity -- must not leak into the instance under test"""
    one = Fr(1)
    shift = lambda x: [shift(v) for v in x] if isinstance(x, list) else x + one
    d2 = {k: v for k, v in dc.items() if k not in ("Sig0", "np_params", "twice", "f32_Mb", "special")}
    d2["Sig"] = [[[2 * v for v in row] for row in S] for S in dc["Sig"]]
    for k in ("M", "b", "W", "c0"):
        if d2.get(k) is not None:
            d2[k] = shift(d2[k])
    d2["ctor"] = "Sigma"
    try:
        o2, _ = _build_cond(d2)
        call(o2, ckw)
    except Exception:
        pass


def _shifted(p):
    """another density of the same shape (same class): the argument of a later, unrelated request to the same object"""
    return type(p)(Sigma=2.0 * p.Sigma, mu=p.mu + 1.0)


def _neg(idx, mask, D):
    """the same coordinates, those flagged in mask written as negative (from-the-end) indices"""
    return [i - D if (mask and mask[k]) else i for k, i in enumerate(idx)]


def gen_scn(g, scn, **kw):
    """One rational case of scenario scn; shapes are passed in kw."""
    R, D = kw.get("R", 1), kw.get("D", 2)
    if scn == "ctor":          # every constructor combination, full and diagonal
        if kw.get("highdim"):
            # diagonal class, D = 40, variances ~ 1e-8 or 1e8: det underflows / overflows float64, ln det is ordinary
            Dh = kw["highdim"]; sc = g.choice([Fr(1, 10 ** 8), Fr(10 ** 8)])
            Sig = [[[(sc * g.randint(1, 3) if i == j else Fr(0)) for j in range(Dh)] for i in range(Dh)] for _ in range(R)]
            p = dict(R=R, D=Dh, Sig=Sig, mu=[[Fr(g.randint(-1, 1)) for _ in range(Dh)] for _ in range(R)], diag=True, ctor="Sigma")
            return dict(scn=scn, p=p, xs=[[Fr(0)] * Dh], highdim=True)
        p = gen_pdfv(g, R, D, diag=kw.get("diag", False), ctor=kw.get("ctor"), history=True)
        return dict(scn=scn, p=p, xs=g.mat(3, D))
    if scn == "measure_int":   # integral / log_integral(_light) / normalize / get_density of a measure
        return dict(scn=scn, u=C.gen_measure(g, R, D, diag=kw.get("diag", False)), xs=g.mat(3, D),
                    order=g.choice(["light-first", "full-first", "density-first"]))
    if scn == "marginal":
        idx = kw.get("idx")
        if idx is None:
            k = g.randint(1, D)
            idx = list(range(D)); g.shuffle(idx); idx = idx[:k]
        d = dict(scn=scn, p=gen_pdfv(g, R, D, diag=kw.get("diag", False), history=True), idx=idx, xs=g.mat(3, len(idx)))
        if g.randint(0, 3) == 0:
            d["neg"] = [g.randint(0, 1) for _ in idx]          # these coordinates are addressed from the end (i - D)
        return d
    if scn == "linsum":
        ds = kw.get("ds") or g.randint(1, D)
        while True:
            W = [g.imat(ds, D) for _ in range(R)]
            if all(fdet(fmm(w, [list(c) for c in zip(*w)])) != 0 for w in W):
                break
        # the receiver is a full or (every third case) a diagonal density object: the image W Sigma W' is a full matrix either way
        pdiag = kw["diag"] if "diag" in kw else (g.randint(0, 2) == 0)
        return dict(scn=scn, p=gen_pdfv(g, R, D, diag=pdiag, history=True), ds=ds, W=W, b=(g.mat(R, ds) if g.randint(0, 2) else None), xs=g.mat(3, ds))
    if scn == "condition_on":
        idx = kw.get("idx")
        if idx is None:
            k = g.randint(1, D - 1)
            idx = list(range(D)); g.shuffle(idx); idx = idx[:k]
        comp = [i for i in range(D) if i not in idx]
        explicit = kw.get("explicit", False)
        dx = list(comp)
        if explicit:
            g.shuffle(dx)
        d = dict(scn=scn, p=gen_pdfv(g, R, D, history=True), dy=idx, dx=dx, explicit=explicit, xs=g.mat(3, D))
        if explicit and g.randint(0, 1) == 0:
            d["negy"] = [g.randint(0, 1) for _ in idx]; d["negx"] = [g.randint(0, 1) for _ in dx]   # addressed from the end (i - D)
        return d
    Dy, Dx = kw.get("Dy", 2), kw.get("Dx", 2)
    cls = kw.get("cls", "full")
    Rc, Rx = kw.get("Rc", 1), kw.get("Rx", 1)
    if scn == "cond_x":
        c = gen_cond(g, cls, Rc, Dy, Dx)
        return dict(scn=scn, c=c, xs=g.mat(kw.get("N", 2), c["Dx"]), ys=g.mat(3, c["Dy"]))
    if scn == "set_y":
        c = gen_cond(g, cls, Rc, Dy, Dx)
        N = kw.get("N", 2) if cond_R(c) == 1 else cond_R(c)
        ys = g.mat(N, c["Dy"])
        if g.randint(0, 4) == 0:
            # an observation FAR from the model (tens of noise standard deviations): ln beta of the likelihood factor below -700
            k = g.randint(0, N - 1)
            ys[k] = [v + g.choice([-1, 1]) * Fr(g.randint(60, 120)) for v in ys[k]]
        return dict(scn=scn, c=c, ys=ys, xs=g.mat(3, c["Dx"]))
    if scn in ("joint", "marg_t", "cond_t", "entropies"):
        c = gen_cond(g, cls, Rc, Dy, Dx)
        # p(x) is a full or (every third case, or when asked for) a diagonal density object
        pdiag = kw["pdiag"] if "pdiag" in kw else (g.randint(0, 2) == 0)
        p = gen_pdfv(g, Rx, c["Dx"], diag=pdiag, history=True)
        return dict(scn=scn, c=c, p=p, xs=g.mat(3, c["Dx"]), ys=g.mat(3, c["Dy"]))
    if scn == "kl":
        R0, R1 = kw.get("R0", R), kw.get("R1", R)
        # either side may be a diagonal density object (KL(diagonal || full) and KL(full || diagonal) included)
        p0 = gen_pdfv(g, R0, D, diag=(g.randint(0, 2) == 0), history=True)
        same = kw.get("same", False)
        p1 = dict(p0) if same else gen_pdfv(g, R1, D, diag=(g.randint(0, 2) == 0), history=True)
        return dict(scn=scn, p0=p0, p1=p1)
    raise ValueError(scn)


def coq_term(d):
    d = C.U(d)
    scn = d["scn"]
    xs = cmat(d["xs"]) if "xs" in d else None
    if scn == "ctor":
        return "obs_all %s %s" % (coq_pdfv(d["p"]), xs)
    if scn == "measure_int":
        u = C.coq_measure(d["u"])
        if d.get("mul"):       # the measure under test is a product u x f (multiplied objects must report their mass too)
            m = d["mul"]
            u = "(%s %s %s %s)" % ("multiply" if m["op"] == "multiply" else "hadamard", cbool(m["upd"]),
                                   ("(prepare %s)" % u) if m["cached"] else u, C.coq_factor(m["f"]))
        # value of log_integral_light, log_integral, then the normalised density
        return ("let u := %s in let a := log_integral_light u in let b := log_integral u in let g := get_density u in "
                "dL (uR u) a.2 ++ dL (uR u) b.2 ++ obs_all g.2 %s ++ obs_ucache g.1 ++ obs_all (normalize u) %s"
                % (u, xs, xs))
    if scn == "marginal":
        return "obs_all (get_marginal %s %s) %s" % (cnats(d["idx"]), coq_pdfv(d["p"]), xs)
    if scn == "linsum":
        b = "None" if d["b"] is None else "(Some (lb2 %s))" % cmat(d["b"])
        return "obs_all (density_of_linear_sum %d (lb3 %s) %s %s) %s" % (d["ds"], cb3(d["W"]), b, coq_pdfv(d["p"]), cmat(d["xs"]))
    if scn == "condition_on":
        p = coq_pdfv(d["p"])
        if d["explicit"]:
            c = "(condition_on_explicit %s %s %s)" % (cnats(d["dy"]), cnats(d["dx"]), p)
        else:
            c = "(condition_on %s %s)" % (cnats(d["dy"]), p)
        xb = [[x[i] for i in d["dy"]] for x in d["xs"]]
        xa = [[x[i] for i in d["dx"]] for x in d["xs"]]
        return "let c := %s in obs_cond c ++ obs_ueval (condition_on_x c (lxs %s)) %s" % (c, cmat(xb), cmat(xa))
    c = coq_cond(d["c"]) if "c" in d else None
    if scn == "cond_x":
        return "obs_all (condition_on_x %s (lxs %s)) %s" % (c, xs, cmat(d["ys"]))
    if scn == "set_y":
        return "obs_fall (set_y true %s (lxs %s)) %s" % (c, cmat(d["ys"]), xs)
    p = coq_pdfv(d["p"]) if "p" in d else None
    if scn == "joint":
        zs = [x + y for x, y in zip(d["xs"], d["ys"])]
        return "obs_all (affine_joint %s %s) %s" % (c, p, cmat(zs))
    if scn == "marg_t":
        return "obs_all (affine_marginal %s %s) %s" % (c, p, cmat(d["ys"]))
    if scn == "cond_t":
        k = cond_R(d["c"]) * d["p"]["R"] - 1
        return ("let c := %s in let p := %s in let post := affine_conditional c p in let py := affine_marginal c p in "
                "let pk := cslice [:: Posz %d] post in let yk := uslice [:: Posz %d] py in "
                "obs_cond post ++ obs_cond (affine_conditional pk yk) ++ obs_ucore (affine_marginal pk yk) ++ obs_ucache (affine_marginal pk yk)"
                % (c, p, k, k))
    if scn == "entropies":
        R = cond_R(d["c"]) * d["p"]["R"]
        return ("let c := %s in let p := %s in dL (uR p) (entropy p) ++ dL %d (conditional_entropy c p) ++ "
                "dL %d (mutual_information false c p)" % (c, p, R, R))
    if scn == "kl":
        R = max(d["p0"]["R"], d["p1"]["R"])
        return "dL %d (kl_divergence %s %s)" % (R, coq_pdfv(d["p0"]), coq_pdfv(d["p1"]))
    raise ValueError(scn)


def alt_terms(d):
    """Repaired variants of known findings: accepted instead of the faithful model where they agree."""
    d = C.U(d)
    if d["scn"] == "set_y":
        return ["obs_fall (set_y false %s (lxs %s)) %s" % (coq_cond(d["c"]), cmat(d["ys"]), cmat(d["xs"]))]
    return []


def expected_joint(d):
    """exact mean / covariance of the joint (x first), component k = rc * Rx + rx, in floats"""
    np = np_()
    c, p = d["c"], d["p"]
    Rc, Rx = cond_R(c), p["R"]
    mus, Sigs = [], []
    for rc in range(Rc):
        M, b = cond_Mb(c, rc)
        M = gtlib.fl(M); b = gtlib.fl(b); Sy = gtlib.fl(cond_Sig(c, rc))
        for rx in range(Rx):
            Sx = gtlib.fl(p["Sig"][rx]); mx = gtlib.fl(p["mu"][rx])
            mus.append(np.concatenate([mx, M @ mx + b]))
            Sigs.append(np.block([[Sx, Sx @ M.T], [M @ Sx, Sy + M @ Sx @ M.T]]))
    return np.array(mus), np.array(Sigs)


def run_impl(d):
    np = np_()
    d = C.U(d)
    scn = d["scn"]
    ob = Obs()
    fails = []
    I = gtlib.impl()
    jnp = I["jnp"]
    if scn == "ctor":
        p = impl_pdfv(d["p"])
        Sig, mu = npS(d["p"])
        obs_all(ob, p, d["xs"])
        is_normal(fails, p, mu, Sig, d["xs"], "GaussianPDF(%s)" % d["p"]["ctor"], ["C02"])
        consistency(fails, p, "GaussianPDF(%s)" % d["p"]["ctor"], pdf=True)
        chk(fails, ["C02"], "integral of a density is one", "GaussianPDF.integral", p.integral(), np.ones(d["p"]["R"]))
        return ob, fails
    if scn == "measure_int":
        def mk():
            u0 = C.impl_measure(d["u"])
            if not d.get("mul"):
                return u0
            m = d["mul"]
            if m["cached"]:
                u0.integrate()
            f = C.impl_factor(m["f"])
            return u0.multiply(f, update_full=m["upd"]) if m["op"] == "multiply" else u0.hadamard(f, update_full=m["upd"])
        u = mk()
        if d.get("mul"):
            # the function the product evaluates to is exp(-x'Lx/2 + nu'x + ln_beta) with ITS natural parameters
            Lam = np.asarray(u.Lambda, dtype=float); nu = np.asarray(u.nu, dtype=float); lb = np.asarray(u.ln_beta, dtype=float)
        else:
            Lam = np.array([gtlib.fl(L) for L in d["u"]["Lam"]]); nu = gtlib.fl(d["u"]["nu"]); lb = gtlib.fl(d["u"]["lb"])
        D = d["u"]["D"]
        Sg = np.linalg.inv(Lam)
        true_li = lb + 0.5 * (np.einsum("ab,abc,ac->a", nu, Sg, nu) + D * math.log(2 * math.pi) - np.linalg.slogdet(Lam)[1])
        if d["order"] == "density-first":
            u.get_density()
        elif d["order"] == "full-first":
            u.log_integral()
        a = np.asarray(u.log_integral_light()); b = np.asarray(u.log_integral())
        ob.add("log_integral_light", a); ob.add("log_integral", b)
        chk(fails, ["C02"], "log_integral_light = true log-integral", "measure.log_integral_light", a, true_li)
        chk(fails, ["C02"], "log_integral = true log-integral", "measure.log_integral", b, true_li)
        chk(fails, ["C02"], "integral = exp(true log-integral)", "measure.integral", u.integral(), np.exp(true_li), tol=1e-7)
        chk(fails, ["C02"], "integrate('1')", "measure.integrate", u.integrate("1"), np.exp(true_li), tol=1e-7)
        ev_u = np.asarray(u.evaluate_ln(jarr(d["xs"])))
        g = u.get_density()
        ev_g = obs_all(ob, g, d["xs"], "density.")
        C.obs_ucache(ob, u, "after.")
        chk(fails, ["C02"], "get_density = u / integral", "measure.get_density", ev_g, ev_u - true_li[:, None])
        consistency(fails, g, "measure.get_density", pdf=True)
        consistency(fails, u, "measure after queries")
        u2 = mk()
        u2.normalize()
        ev_n = obs_all(ob, u2, d["xs"], "normalized.")
        chk(fails, ["C02"], "normalize = u / integral (up to ln_beta)", "measure.normalize", ev_n, ev_u - true_li[:, None])
        return ob, fails
    if scn == "marginal":
        p = impl_pdfv(d["p"])
        Sig, mu = npS(d["p"])
        idx = d["idx"]
        m = p.get_marginal(jnp.array(_neg(idx, d.get("neg"), d["p"]["D"])))
        obs_all(ob, m, d["xs"])
        is_normal(fails, m, mu[:, idx], Sig[:, idx][:, :, idx], d["xs"], "pdf.get_marginal", ["C05", "C02"])
        consistency(fails, m, "pdf.get_marginal", pdf=True)
        return ob, fails
    if scn == "linsum":
        p = impl_pdfv(d["p"])
        Sig, mu = npS(d["p"])
        W = np.array([gtlib.fl(w) for w in d["W"]])
        b = None if d["b"] is None else gtlib.fl(d["b"])
        m = p.get_density_of_linear_sum(jarr(d["W"]), None if d["b"] is None else jarr(d["b"]))
        obs_all(ob, m, d["xs"])
        emu = np.einsum("abc,ac->ab", W, mu) + (0 if b is None else b)
        is_normal(fails, m, emu, np.einsum("abc,acd,aed->abe", W, Sig, W), d["xs"], "pdf.get_density_of_linear_sum", ["C05", "C02"])
        consistency(fails, m, "pdf.get_density_of_linear_sum", pdf=True)
        return ob, fails
    if scn == "condition_on":
        p = impl_pdfv(d["p"])
        Sig, mu = npS(d["p"])
        dy, dx = d["dy"], d["dx"]
        if d["explicit"]:
            c = p.condition_on_explicit(jnp.array(_neg(dy, d.get("negy"), d["p"]["D"])), jnp.array(_neg(dx, d.get("negx"), d["p"]["D"])))
        else:
            c = p.condition_on(jnp.array(dy))
        obs_cond(ob, c)
        x = gtlib.fl(d["xs"])
        xb, xa = x[:, dy], x[:, dx]
        post = c.condition_on_x(jnp.array(xb))
        ev = np.asarray(post.evaluate_ln(jnp.array(xa)))       # [R*N, N]
        ob.add("cond(x_b).evaluate_ln(x_a)", ev)
        R, N = d["p"]["R"], x.shape[0]
        marg = p.get_marginal(jnp.array(dy))
        em = np.asarray(marg.evaluate_ln(jnp.array(xb)))       # [R, N]
        joint = np.stack([logN(x, mu[r], Sig[r]) for r in range(R)])   # independent oracle
        lhs = np.stack([[ev[r * N + n, n] + em[r, n] for n in range(N)] for r in range(R)])
        chk(fails, ["C06"], "p(xa|xb) p(xb) = p(x)", "pdf.condition_on%s" % ("_explicit" if d["explicit"] else ""), lhs, joint)
        cond_consistency(fails, c, "pdf.condition_on")
        return ob, fails
    c, ckw = impl_cond(d["c"]) if "c" in d else (None, {})
    Rc = cond_R(d["c"]) if "c" in d else None
    nn = "c" in d and d["c"]["cls"] == "nn"
    site = "cond[%s]." % d["c"]["cls"] if "c" in d else ""
    if scn == "cond_x":
        xs = jarr(d["xs"])
        _decoy(d["c"], ckw, lambda c2, kw: c2.condition_on_x_u(xs, **kw) if nn else c2.condition_on_x(xs))
        o = c.condition_on_x_u(xs, **ckw) if nn else c.condition_on_x(xs)
        _ = c.condition_on_x_u(xs + 1.0, **ckw) if nn else c.condition_on_x(xs + 1.0)   # a later request must not touch the held result
        obs_all(ob, o, d["ys"])
        # cond(x) is condition_on_x(x); conditioning returns normalised densities; the conditional mean function
        o2 = c(xs, **ckw)
        chk(fails, ["C10", "C15", "C02"], "cond(x)(y) = condition_on_x(x).evaluate_ln(y)", site + "__call__", o2.evaluate_ln(jarr(d["ys"])), o.evaluate_ln(jarr(d["ys"])))
        if not bool(np.all(np.asarray(o.is_normalized()))):
            fails.append(fail(["C02"], "condition_on_x result does not report itself normalised", site + "condition_on_x"))
        if not nn:
            cm_ = np.asarray(c.get_conditional_mu(xs))
            chk(fails, ["C15", "C17"], "get_conditional_mu = M x + b", site + "get_conditional_mu", cm_.reshape(-1, cm_.shape[-1]), np.asarray(o.mu))
        N = len(d["xs"])
        mus, Sigs = [], []
        for r in range(Rc):
            M, b = cond_Mb(d["c"], r)
            for n in range(N):
                mus.append(gtlib.fl(M) @ gtlib.fl(d["xs"][n]) + gtlib.fl(b)); Sigs.append(gtlib.fl(cond_Sig(d["c"], r)))
        is_normal(fails, o, np.array(mus), np.array(Sigs), d["ys"], site + "condition_on_x", ["C02", "C12", "C15"])
        consistency(fails, o, site + "condition_on_x", pdf=True)
        return ob, fails
    if scn == "set_y":
        ys = jarr(d["ys"])
        _decoy(d["c"], ckw, lambda c2, kw: c2.set_y(ys, **kw))
        f = c.set_y(ys, **ckw)
        c.set_y(0.5 * ys + 1.0, **ckw)          # a later request (same N, other data) must not touch the factor returned before
        N = len(d["ys"])
        ev = None
        try:
            ev = np.asarray(f.evaluate_ln(jarr(d["xs"])))
        except Exception as e:
            fails.append(fail(["C10"], "set_y factor cannot be evaluated: %s" % type(e).__name__, site + "set_y"))
        ob.add("evaluate_ln", ev if ev is not None else np.zeros(0))
        C.obs_ucore(ob, f, R=np.asarray(f.ln_beta).shape[0])
        # likelihood value N(y_n; M x + b, Sigma) by the independent oracle
        x = gtlib.fl(d["xs"])
        exp = []
        for n in range(N):
            r = 0 if Rc == 1 else n
            M, b = cond_Mb(d["c"], r)
            M = gtlib.fl(M); b = gtlib.fl(b); S = gtlib.fl(cond_Sig(d["c"], r))
            exp.append(np.array([logN(gtlib.fl([d["ys"][n]]), M @ x[k] + b, S)[0] for k in range(len(x))]))
        exp = np.array(exp)
        Dy, Dx = d["c"]["Dy"], d["c"]["Dx"]
        if ev is not None and not gtlib.close(ev, exp):
            key = None
            if ev.shape == exp.shape and Dx != Dy and gtlib.close(ev - exp, np.full(exp.shape, (Dy - Dx) * HL2P), tol=1e-9, scale=1.0):
                key = SETY_KEY
            fails.append(fail(["C10", "C11"], "set_y(y)(x) = N(y; Mx+b, Sigma)", site + "set_y", key,
                              relerr=gtlib.relerr(ev, exp), Dx=Dx, Dy=Dy))
        # well-formed batch: one component per observation, usable by product / slice / multiply
        shapes = (np.asarray(f.Lambda).shape[0], np.asarray(f.nu).shape[0], np.asarray(f.ln_beta).shape[0])
        if shapes != (N, N, N):
            fails.append(fail(["C10", "C15"], "set_y factor is not a batch of N components %s" % (shapes,), site + "set_y"))
        else:
            try:
                pr = f.product()
                evp = np.asarray(pr.evaluate_ln(jarr(d["xs"])))
                if ev is not None:
                    chk(fails, ["C10"], "product() of likelihood factors", site + "set_y.product", evp, ev.sum(axis=0, keepdims=True))
                sl = f.slice(jnp.array([N - 1]))
                chk(fails, ["C10"], "slice of likelihood factors", site + "set_y.slice", sl.evaluate_ln(jarr(d["xs"])), ev[N - 1:N])
            except Exception as e:
                fails.append(fail(["C10"], "set_y factor not usable: %s" % type(e).__name__, site + "set_y"))
        return ob, fails
    p = impl_pdfv(d["p"]) if "p" in d else None
    if scn in ("joint", "marg_t"):
        emu, eSig = expected_joint(d)
        Dx = d["c"]["Dx"]
        if scn == "joint":
            _decoy(d["c"], ckw, lambda c2, kw: c2.affine_joint_transformation(p, **kw))
            o = c.affine_joint_transformation(p, **ckw)
            c.affine_joint_transformation(_shifted(p), **ckw)        # later request with another p(x): the held result stays
            zs = [x + y for x, y in zip(d["xs"], d["ys"])]
            obs_all(ob, o, zs)
            ok = is_normal(fails, o, emu, eSig, zs, site + "affine_joint_transformation", ["C07", "C02"])
            # the chain rule on the implementation's own operands
            cx = (c.condition_on_x_u(jarr(d["xs"]), **ckw) if nn else c.condition_on_x(jarr(d["xs"])))
            e_c = np.asarray(cx.evaluate_ln(jarr(d["ys"])))      # [Rc*N, N]
            e_p = np.asarray(p.evaluate_ln(jarr(d["xs"])))        # [Rx, N]
            e_j = np.asarray(o.evaluate_ln(jarr(zs)))
            N = len(zs); Rx = d["p"]["R"]
            ex = np.array([[e_c[(k // Rx) * N + n, n] + e_p[k % Rx, n] for n in range(N)] for k in range(Rc * Rx)])
            chk(fails, ["C07"], "p(x,y) = p(y|x) p(x)", site + "affine_joint_transformation", e_j, ex)
            consistency(fails, o, site + "affine_joint_transformation", pdf=True)
        else:
            _decoy(d["c"], ckw, lambda c2, kw: c2.affine_marginal_transformation(p, **kw))
            o = c.affine_marginal_transformation(p, **ckw)
            c.affine_marginal_transformation(_shifted(p), **ckw)
            obs_all(ob, o, d["ys"])
            is_normal(fails, o, emu[:, Dx:], eSig[:, Dx:, Dx:], d["ys"], site + "affine_marginal_transformation", ["C08", "C02"])
            consistency(fails, o, site + "affine_marginal_transformation", pdf=True)
        return ob, fails
    if scn == "cond_t":
        _decoy(d["c"], ckw, lambda c2, kw: c2.affine_conditional_transformation(p, **kw))
        o = c.affine_conditional_transformation(p, **ckw)
        c.affine_conditional_transformation(_shifted(p), **ckw)
        obs_cond(ob, o)
        # Bayes' rule at points: p(x|y) p(y) = p(y|x) p(x), with independent p(y) and p(y|x)p(x)
        emu, eSig = expected_joint(d)
        Dx = d["c"]["Dx"]
        x = gtlib.fl(d["xs"]); y = gtlib.fl(d["ys"]); z = np.concatenate([x, y], axis=1)
        post = o.condition_on_x(jarr(d["ys"]))
        e_post = np.asarray(post.evaluate_ln(jarr(d["xs"])))       # [R*N, N]
        N = len(x); R = len(emu)
        lhs = np.array([[e_post[k * N + n, n] + logN(y[n:n + 1], emu[k, Dx:], eSig[k, Dx:, Dx:])[0] for n in range(N)] for k in range(R)])
        rhs = np.array([logN(z, emu[k], eSig[k]) for k in range(R)])
        chk(fails, ["C09"], "p(x|y) p(y) = p(y|x) p(x)", site + "affine_conditional_transformation", lhs, rhs)
        # Bayes' rule on the implementation's own operands: p(y|x) as the conditional object itself evaluates it, p(x) as given
        cx = (c.condition_on_x_u(jarr(d["xs"]), **ckw) if nn else c.condition_on_x(jarr(d["xs"])))
        e_c = np.asarray(cx.evaluate_ln(jarr(d["ys"])))          # [Rc*N, N]
        e_p = np.asarray(p.evaluate_ln(jarr(d["xs"])))            # [Rx, N]
        Rx_ = d["p"]["R"]
        rhs_own = np.array([[e_c[(k // Rx_) * N + n, n] + e_p[k % Rx_, n] for n in range(N)] for k in range(R)])
        chk(fails, ["C09"], "p(x|y) p(y) = p(y|x) p(x), p(y|x) and p(x) evaluated by the operands themselves",
            site + "affine_conditional_transformation", lhs, rhs_own)
        cond_consistency(fails, o, site + "affine_conditional_transformation")
        # round trips, component by component: transforming back with p(y) recovers p(y|x) and p(x)
        p_y = c.affine_marginal_transformation(p, **ckw)
        Rx = d["p"]["R"]
        for k in range(R):
            pk = o.slice(jnp.array([k])); yk = p_y.slice(jnp.array([k]))
            back = pk.affine_conditional_transformation(yk)
            mback = pk.affine_marginal_transformation(yk)
            if k == R - 1:
                obs_cond(ob, back, "back.")
                C.obs_ucore(ob, mback, "mback.", R=1)
                C.obs_ucache(ob, mback, "mback.")
            M, b = cond_Mb(d["c"], k // Rx)
            chk(fails, ["C09"], "double transformation recovers M", site + "affine_conditional_transformation x2", back.M, gtlib.fl([M]))
            chk(fails, ["C09"], "double transformation recovers b", site + "affine_conditional_transformation x2", back.b, gtlib.fl([b]))
            chk(fails, ["C09"], "double transformation recovers Sigma", site + "affine_conditional_transformation x2", back.Sigma, gtlib.fl([cond_Sig(d["c"], k // Rx)]))
            chk(fails, ["C09"], "marginal transformation of the posterior recovers p(x) mean", site + "affine_marginal_transformation", mback.mu, gtlib.fl([d["p"]["mu"][k % Rx]]))
            chk(fails, ["C09"], "marginal transformation of the posterior recovers p(x) covariance", site + "affine_marginal_transformation", mback.Sigma, gtlib.fl([d["p"]["Sig"][k % Rx]]))
        return ob, fails
    if scn == "entropies":
        emu, eSig = expected_joint(d)
        Dx = d["c"]["Dx"]; Dy = d["c"]["Dy"]
        Sig, mu = npS(d["p"])
        Rx = d["p"]["R"]
        H = lambda S: 0.5 * (S.shape[-1] * (1 + math.log(2 * math.pi)) + np.linalg.slogdet(S)[1])
        ent = np.asarray(p.entropy())
        ce = np.asarray(c.conditional_entropy(p, **ckw))
        mi = np.asarray(c.mutual_information(p, **ckw))
        ob.add("entropy", ent); ob.add("conditional_entropy", ce); ob.add("mutual_information", mi)
        chk(fails, ["C13"], "entropy = -E[ln p]", "pdf.entropy", ent, H(Sig))
        Hxy = H(eSig); Hy = H(eSig[:, Dx:, Dx:]); Hx = np.array([H(Sig[k % Rx]) for k in range(len(eSig))])
        chk(fails, ["C13"], "conditional_entropy = H(X,Y)-H(X)", site + "conditional_entropy", ce, Hxy - Hx)
        chk(fails, ["C13"], "mutual_information = H(X)+H(Y)-H(X,Y)", site + "mutual_information", mi, Hx + Hy - Hxy, key=None)
        if np.any(mi < -1e-9):
            fails.append(fail(["C13"], "mutual information negative", site + "mutual_information", None, min=float(mi.min())))
        return ob, fails
    if scn == "kl":
        p0 = impl_pdfv(d["p0"]); p1 = impl_pdfv(d["p1"])
        S0, m0 = npS(d["p0"]); S1, m1 = npS(d["p1"])
        kl = np.asarray(p0.kl_divergence(p1))
        ob.add("kl", kl)
        R = max(len(m0), len(m1)); D = m0.shape[1]
        ex = []
        for k in range(R):
            a, b = (0 if len(m0) == 1 else k), (0 if len(m1) == 1 else k)
            dm = m1[b] - m0[a]
            ex.append(0.5 * (np.trace(np.linalg.solve(S1[b], S0[a])) + dm @ np.linalg.solve(S1[b], dm) - D
                             + np.linalg.slogdet(S1[b])[1] - np.linalg.slogdet(S0[a])[1]))
        chk(fails, ["C13"], "KL = E_p[ln p - ln q]", "pdf.kl_divergence", kl, np.array(ex))
        if np.any(kl < -1e-9):
            fails.append(fail(["C13"], "KL negative", "pdf.kl_divergence", None, min=float(kl.min())))
        return ob, fails
    raise ValueError(scn)


def hist(d):
    h = dict(scn=d["scn"])
    for k in ("c", "p", "u", "p0"):
        if k in d and isinstance(d[k], dict):
            for kk in ("cls", "R", "Ru", "D", "Dy", "Dx", "ctor", "diag"):
                if kk in d[k]:
                    h["%s.%s" % (k, kk)] = d[k][kk]
            if d[k].get("special"):
                h["%s.special" % k] = d[k]["special"]
            h["%s.history" % k] = "update_Sigma" if d[k].get("Sig0") is not None else ("update" if d[k].get("upd") is not None else "fresh")
    return h


def nontrivial(d):
    n = 1
    for k in ("c", "p", "u", "p0", "p1"):
        if k in d and isinstance(d[k], dict):
            n *= max(1, d[k].get("R", 1)) * max(1, d[k].get("D", 1)) * max(1, d[k].get("Dy", 1)) * max(1, d[k].get("Dx", 1)) * max(1, d[k].get("Ru", 1))
    return n > 1


def scenario(d):
    s = d["scn"]
    if "c" in d:
        s += "/" + d["c"]["cls"]
    return s


def filtered(prop):
    """run_impl keeping only the oracle failures that concern property prop"""
    def run(d):
        ob, fails = run_impl(d)
        return ob, [f for f in fails if prop in f["props"]]
    return with_history(run)


def shapes_cond(g, tier, n_extra):
    """(cls, Rc, Rx, Dy, Dx) design: every class, both dimension regimes, the three batch layouts"""
    out = []
    for cls in CLS:
        for (Rc, Rx) in [(1, 1), (1, 3), (2, 1)]:
            for (Dy, Dx) in [(1, 2), (2, 1), (2, 2)]:
                out.append((cls, Rc, Rx, Dy, Dx))
    for _ in range(n_extra):
        Rc, Rx = g.choice([(1, 1), (1, g.randint(2, 4)), (g.randint(2, 4), 1)])
        out.append((g.choice(CLS), Rc, Rx, g.randint(1, 3), g.randint(1, 3)))
    return out
