# Translator for C01's "the operands are left unchanged": re-derives, from /repo's current source (Python ast), every place
# where a product / evaluation method of factor.py and measure.py could modify one of its operands -- an assignment to an
# attribute or item of a parameter (or of a local alias of one), a setattr on it, or a call of one of the library's in-place
# methods on it -- and prints the result as a Coq file (Purity.v) over which coq/schema/PurityThm.v is re-checked on every run.
# Syntactic and fail-closed: jax arrays are immutable, so an operand can only change through its attributes.
import ast, os, sys, warnings

MUTATORS = {"update", "update_Sigma", "normalize", "_prepare_integration", "compute_lnZ", "compute_mu", "invert_lambda",
            "update_phi", "__setattr__", "__delattr__"}
TARGETS = {
    "factor.py": {"ConjugateFactor": ["evaluate_ln", "evaluate", "__call__", "_multiply_with_measure", "_hadamard_with_measure", "product", "slice"],
                  "OneRankFactor": ["_multiply_with_measure", "_hadamard_with_measure", "slice"],
                  "LinearFactor": ["_multiply_with_measure", "_hadamard_with_measure", "slice"],
                  "ConstantFactor": ["_multiply_with_measure", "_hadamard_with_measure", "slice"]},
    "measure.py": {"GaussianMeasure": ["__mul__", "multiply", "hadamard", "product", "slice"],
                   "GaussianDiagMeasure": ["product", "slice"]},
}


class Unsupported(Exception):
    pass


def base_name(node):
    while isinstance(node, (ast.Attribute, ast.Subscript)):
        node = node.value
    return node.id if isinstance(node, ast.Name) else None


def mutations(fn):
    params = {a.arg for a in fn.args.posonlyargs + fn.args.args + fn.args.kwonlyargs}
    if fn.args.vararg or fn.args.kwarg:
        params |= {a.arg for a in (fn.args.vararg, fn.args.kwarg) if a}
    tainted = set(params)
    out = []
    for node in ast.walk(fn):
        # aliases: x = <parameter>  (plain name only; anything built by a call is a new object)
        if isinstance(node, ast.Assign) and isinstance(node.value, ast.Name) and node.value.id in tainted:
            for t in node.targets:
                if isinstance(t, ast.Name):
                    tainted.add(t.id)
    for node in ast.walk(fn):
        targets = []
        if isinstance(node, ast.Assign):
            targets = node.targets
        elif isinstance(node, (ast.AugAssign, ast.AnnAssign)):
            targets = [node.target]
        elif isinstance(node, ast.Delete):
            targets = node.targets
        for t in targets:
            for s in ([t] if not isinstance(t, (ast.Tuple, ast.List)) else t.elts):
                if isinstance(s, (ast.Attribute, ast.Subscript)) and base_name(s) in tainted:
                    out.append("line %d: store to %s" % (node.lineno, ast.unparse(s)[:60]))
        if isinstance(node, ast.Call):
            f = node.func
            if isinstance(f, ast.Name) and f.id in ("setattr", "delattr") and node.args and base_name(node.args[0]) in tainted:
                out.append("line %d: %s on %s" % (node.lineno, f.id, ast.unparse(node.args[0])[:40]))
            if isinstance(f, ast.Attribute) and f.attr in MUTATORS and base_name(f.value) in tainted:
                out.append("line %d: in-place method %s on %s" % (node.lineno, f.attr, ast.unparse(f.value)[:40]))
            if isinstance(f, ast.Attribute) and f.attr == "update" and isinstance(f.value, ast.Attribute) and f.value.attr == "__dict__" and base_name(f.value) in tainted:
                out.append("line %d: __dict__.update on %s" % (node.lineno, ast.unparse(f.value)[:40]))
    return out


SLICE_FILES = ["factor.py", "measure.py", "pdf.py", "conditional.py"]


def _is_ctor(call):
    f = call.func
    name = f.id if isinstance(f, ast.Name) else (f.attr if isinstance(f, ast.Attribute) else "")
    return bool(name) and name[0].isupper()


def _own_nodes(fn):
    """the nodes of a function body without the bodies of nested function definitions / lambdas"""
    nested = (ast.FunctionDef, ast.AsyncFunctionDef, ast.Lambda, ast.ClassDef)
    stack = [n for n in fn.body if not isinstance(n, nested)]
    while stack:
        n = stack.pop()
        yield n
        stack.extend(c for c in ast.iter_child_nodes(n) if not isinstance(c, nested))


def slice_returns(repo):
    """for every `slice` method: the return statements that do NOT hand back a freshly constructed object
    (a constructor call, or a local name bound to one)"""
    out = []
    for f in SLICE_FILES:
        with warnings.catch_warnings():
            warnings.simplefilter("ignore")
            tree = ast.parse(open(os.path.join(repo, "gaussian_toolbox", f)).read())
        for cls in [n for n in tree.body if isinstance(n, ast.ClassDef)]:
            for fn in [n for n in cls.body if isinstance(n, ast.FunctionDef) and n.name == "slice"]:
                fresh = set()
                for node in ast.walk(fn):
                    if isinstance(node, ast.Assign) and isinstance(node.value, ast.Call) and _is_ctor(node.value):
                        fresh |= {t.id for t in node.targets if isinstance(t, ast.Name)}
                bad = []
                rets = [n for n in _own_nodes(fn) if isinstance(n, ast.Return)]      # not those of nested helper functions
                if not rets:
                    bad.append("no return statement")
                for r in rets:
                    v = r.value
                    ok = (isinstance(v, ast.Call) and _is_ctor(v)) or (isinstance(v, ast.Name) and v.id in fresh)
                    if not ok:
                        bad.append("line %d: returns %s" % (r.lineno, ast.unparse(v)[:50] if v is not None else "None"))
                out.append(("%s:%s.slice" % (f, cls.name), bad))
    return out


def extract(repo):
    res = []
    for f, classes in TARGETS.items():
        with warnings.catch_warnings():
            warnings.simplefilter("ignore")
            tree = ast.parse(open(os.path.join(repo, "gaussian_toolbox", f)).read())
        found = {n.name: n for n in tree.body if isinstance(n, ast.ClassDef)}
        for cname, meths in classes.items():
            if cname not in found:
                raise Unsupported("class %s not found in %s" % (cname, f))
            fns = {n.name: n for n in found[cname].body if isinstance(n, ast.FunctionDef)}
            for m in meths:
                if m not in fns:
                    if cname in ("ConjugateFactor", "GaussianMeasure"):
                        raise Unsupported("method %s.%s not found" % (cname, m))
                    continue                      # inherited
                res.append(("%s:%s.%s" % (f, cname, m), mutations(fns[m])))
    return res


def to_coq(res, slices=()):
    q = lambda s: '"%s"' % s.replace('"', "'")
    lines = ["(* GENERATED by harness/purity_extract.py from the current source of /repo -- do not edit *)",
             "From Coq Require Import List String.", "Import ListNotations.", "Open Scope string_scope.",
             "Definition operand_stores : list (string * list string) := ["]
    lines.append(";\n".join("  (%s, [%s])" % (q(n), "; ".join(q(x) for x in l)) for n, l in res))
    lines.append("].")
    lines.append("Definition slice_not_fresh : list (string * list string) := [")
    lines.append(";\n".join("  (%s, [%s])" % (q(n), "; ".join(q(x) for x in l)) for n, l in slices))
    lines.append("].")
    return "\n".join(lines) + "\n"


if __name__ == "__main__":
    repo = sys.argv[1] if len(sys.argv) > 1 else "/repo"
    sys.stdout.write(to_coq(extract(repo), slice_returns(repo)))
