# Verdict logic shared by all properties (DESIGN.md section 6).
import os, sys, re, json, time, glob, subprocess, hashlib, shutil, fcntl, traceback, importlib
from collections import Counter
from . import gtlib, drift
from .gtlib import VERIF, COQ

FORBIDDEN = re.compile(r"\b(Admitted|admit|Axiom|Axioms|Parameter|Parameters|Conjecture|Admit Obligations|bypass_check)\b|Unset Guard Checking|Unset Positivity Checking|Unset Universe Checking|type-in-type|impredicative-set")

TRUSTED_BASE = [
    "Coq 8.16.1 kernel and its vm_compute evaluator (no native_compute)",
    "MathComp 1.15 (ssreflect, fingroup, algebra), Algebra Tactics (ring/field)",
    "hand-written Gallina model coq/model/*.v, tied to /repo by the correspondence check of this run",
    "correspondence harness (harness/*.py): generators, float<->rational conversion, tolerance 1e-8, "
    "Python interpretation of log-domain triples q + c*(1/2)ln(2pi) + (1/2)ln r",
    "Gaussian-integral specification GI and the Isserlis-Wick moments (proofs/Spec.v, proofs/Wick.v) are definitions over an abstract real field; at Coq's real numbers they are theorems about the integral over R^D taken as an iterated improper Riemann integral (`is_gint`, trunc/GaussND.v; props/GI*.v) -- that definition is what 'integral' means there",
    "floating point, Cholesky, XLA are not modelled: the model is exact, equality is 1e-8 agreement",
]


def _prop_files():
    out = {}
    try:
        for l in open(os.path.join(VERIF, "properties.jsonl")):
            p = json.loads(l)
            out[p["id"]] = list(p.get("anchors", {}).get("files", []))
    except Exception:
        pass
    return out


PROP_FILES = _prop_files()


def OUTDIR(kind):
    """evidence / replays go to /verif/<kind>; experiments against a scratch copy of the repository (VERIF_REPO,
    seeded changes) set VERIF_OUT so that they do not overwrite the evidence of the real tree"""
    base = os.environ.get("VERIF_OUT")
    return os.path.join(base, kind) if base else os.path.join(VERIF, kind)


def sh(cmd, timeout, cwd=None):
    return subprocess.run(cmd, shell=True, capture_output=True, text=True, timeout=timeout, cwd=cwd)


def build_coq(log):
    """Full .vo build of the development (incremental), serialised across concurrent checks."""
    os.makedirs(os.path.join(VERIF, "build"), exist_ok=True)
    lock = open(os.path.join(VERIF, "build", ".coq.lock"), "w")
    fcntl.flock(lock, fcntl.LOCK_EX)
    try:
        r = sh("coq_makefile -f _CoqProject -o Makefile > /dev/null && timeout 3000 make -j16 2>&1 | tail -40", 3100, cwd=COQ)
        log.append(r.stdout[-3000:])
        ok = r.returncode == 0 and "Error" not in r.stdout and "rror:" not in r.stdout
        return ok, r.stdout[-3000:]
    finally:
        fcntl.flock(lock, fcntl.LOCK_UN)
        lock.close()


def check_forbidden():
    bad = []
    for p in glob.glob(os.path.join(COQ, "**", "*.v"), recursive=True):
        txt = open(p).read()
        txt_nc = re.sub(r"\(\*.*?\*\)", "", txt, flags=re.S)
        for m in FORBIDDEN.finditer(txt_nc):
            bad.append("%s: %s" % (os.path.relpath(p, VERIF), m.group(0)))
    proj = open(os.path.join(COQ, "_CoqProject")).read()
    for m in FORBIDDEN.finditer(proj):
        bad.append("_CoqProject: %s" % m.group(0))
    return bad


def check_props_file(relpath, workdir, tier):
    """Re-check the property file and collect theorem names and Print Assumptions output."""
    src = os.path.join(COQ, relpath)
    txt = open(src).read()
    theorems = re.findall(r"^\s*Theorem\s+([A-Za-z0-9_']+)", txt, flags=re.M)
    os.makedirs(workdir, exist_ok=True)
    dst = os.path.join(workdir, "Recheck_" + os.path.basename(relpath))
    shutil.copy(src, dst)
    r = sh("timeout 1200 coqc -R %s GT -w none %s" % (COQ, dst), 1300, cwd=workdir)
    ok = r.returncode == 0
    axioms = {}
    closed = 0
    # Print Assumptions output: either "Closed under the global context" or "Axioms:" + lines
    chunks = re.split(r"(?=Closed under the global context|Axioms:)", r.stdout)
    ax_all = set()
    ax_blocks = 0
    for ch in chunks:
        if ch.startswith("Closed under"):
            closed += 1
        elif ch.startswith("Axioms:"):
            ax_blocks += 1
            for m in re.finditer(r"^([A-Za-z0-9_.']+)\s*:", ch[len("Axioms:"):], flags=re.M):
                ax_all.add(m.group(1))
    stderr = r.stderr[-2000:]
    if ok and closed + ax_blocks < len(theorems):
        # fail closed: every property theorem must be followed by its Print Assumptions report
        ok = False
        stderr += "\n%d theorems but only %d Print Assumptions reports in %s" % (len(theorems), closed + ax_blocks, relpath)
    res = dict(ok=ok, theorems=theorems, closed=closed, axioms=sorted(ax_all),
               stderr=stderr, cmd="coqc -R coq GT %s (after make -C coq)" % relpath)
    if tier == "thorough" and ok:
        vo = relpath[:-2].replace("/", ".")
        rc = sh("timeout 3000 coqchk -silent -o -R %s GT GT.%s 2>&1" % (COQ, vo), 3100, cwd=COQ)
        res["coqchk"] = rc.stdout[-3000:]
        res["coqchk_ok"] = (rc.returncode == 0 and "CONTEXT SUMMARY" in rc.stdout)
    return res


def check_props_files(relpaths, workdir, tier):
    """several property files (e.g. a MathComp one and a Reals one): all must check; results are merged"""
    if isinstance(relpaths, str):
        return check_props_file(relpaths, workdir, tier)
    res = None
    for rp in relpaths:
        r = check_props_file(rp, workdir, tier)
        if res is None:
            res = r
            continue
        res["ok"] = res["ok"] and r["ok"]
        res["theorems"] += r["theorems"]
        res["closed"] += r["closed"]
        res["axioms"] = sorted(set(res["axioms"]) | set(r["axioms"]))
        res["stderr"] = (res.get("stderr") or "") + (r.get("stderr") or "")
        res["cmd"] += " ; " + r["cmd"]
        if "coqchk" in r:
            res["coqchk"] = (res.get("coqchk", "") + "\n" + r["coqchk"])[-3000:]
            res["coqchk_ok"] = res.get("coqchk_ok", True) and r["coqchk_ok"]
    return res


def cover_summary(prop, drifted):
    """which library functions (of the files this property is anchored in) the implementation runs of this check executed"""
    anchored = set(PROP_FILES.get(prop, []))
    allf = [k for f, lst in drift.spans().items() if f in anchored for k in ["%s::%s" % (f, n) for n, _, _ in lst]]
    ran = {k: v for k, v in COVER.items() if k.split("::")[0] in anchored and v > 0}
    not_run = sorted(k for k in allf if k not in ran)
    return dict(measured=bool(COVER), anchored_files=sorted(anchored), functions_in_anchored_files=len(allf), functions_exercised=len(ran),
                mean_line_fraction_of_exercised=(round(sum(ran.values()) / len(ran), 3) if ran else 0.0),
                not_exercised=not_run[:200],
                drifted_but_not_exercised=[k for k in drifted if k in not_run],
                note="line coverage of the implementation during this check's correspondence runs (coverage.py, in memory); "
                     "a function that is not exercised is not tied to the model by this check")


def load_known():
    p = os.path.join(VERIF, "known_findings.json")
    return json.load(open(p)) if os.path.exists(p) else []


def fingerprint(desc):
    return hashlib.sha1(json.dumps(desc, sort_keys=True).encode()).hexdigest()[:12]


def write_replay(prop, payload):
    os.makedirs(OUTDIR("replays"), exist_ok=True)
    h = hashlib.sha1(json.dumps(payload, sort_keys=True, default=str).encode()).hexdigest()[:10]
    path = os.path.join(OUTDIR("replays"), "%s-%s.json" % (prop, h))
    json.dump(payload, open(path, "w"), indent=1, default=str)
    return path


COVER = {}      # file::function -> best fraction of its body lines executed by the implementation runs of this check


def run_cases(mod, descs, workdir, jobs=16):
    """Run implementation and model on every desc; returns per-case records."""
    recs = []
    t0 = time.time()
    cov = None
    if COVER is not None and os.environ.get("VERIF_NO_COVERAGE") != "1":
        try:
            import coverage
            cov = coverage.Coverage(data_file=None, include=[os.path.join(gtlib.REPO, "gaussian_toolbox", "*")], branch=False)
            cov.start()
        except Exception:
            cov = None
    try:
        for d in descs:
            rec = dict(desc=d, obs=None, fails=[], impl_error=None)
            try:
                rec["obs"], rec["fails"] = mod.run_impl(d)
            except Exception as e:  # the implementation raised
                rec["impl_error"] = "%s: %s" % (type(e).__name__, str(e)[:300])
                rec["tb"] = traceback.format_exc()[-1500:]
            recs.append(rec)
    finally:
        if cov is not None:
            cov.stop()
            try:
                for k, v in drift.exercised(cov).items():
                    COVER[k] = max(COVER.get(k, 0.0), v)
            except Exception as e:
                COVER["<coverage analysis failed>"] = 0.0
    t_impl = time.time() - t0
    terms = []
    for rec in recs:
        try:
            terms.append(mod.coq_term(rec["desc"]))
        except Exception as e:
            if rec["impl_error"] is None:
                raise
            terms.append(None)      # the implementation raised before the seam values of this case existed
    mk = dict(extra_imports=getattr(mod, "IMPORTS", ""), shard=getattr(mod, "SHARD", 20), jobs=jobs)
    if getattr(mod, "HEADER", None):
        mk.update(header=mod.HEADER, ctype="list Z", lst=("[", "]"))
    live = [i for i, t in enumerate(terms) if t is not None]
    louts, errors, t_coq = gtlib.run_model([terms[i] for i in live], workdir, **mk)
    outs = [None] * len(terms)
    for i, o in zip(live, louts):
        outs[i] = o
    if hasattr(mod, "post_model"):
        # part of a model result that has to leave the log domain (e.g. a sum of exponentials) is combined here
        outs = [(mod.post_model(rec["desc"], o) if o is not None else None) for rec, o in zip(recs, outs)]
    for rec, o in zip(recs, outs):
        rec["model"] = o
        if rec["impl_error"] is not None:
            expect_err = mod.expected_error(rec["desc"]) if hasattr(mod, "expected_error") else None
            if expect_err and rec["impl_error"].startswith(expect_err):
                rec["dis"] = []
            else:
                rec["dis"] = [("impl-raised", -1, rec["impl_error"], None, float("inf"))]
        elif o is None:
            rec["dis"] = [("model-failed", -1, None, None, float("inf"))]
        else:
            rec["dis"] = gtlib.compare(rec["obs"], o)
    # repair-aware models: where the faithful model disagrees, a registered repaired variant may agree
    if hasattr(mod, "alt_terms"):
        cand = [(rec, t) for rec in recs if rec["dis"] and rec["obs"] is not None for t in mod.alt_terms(rec["desc"])]
        if cand:
            aouts, aerr, _ = gtlib.run_model([t for _, t in cand], os.path.join(workdir, "alt"), **mk)
            for (rec, _), o in zip(cand, aouts):
                if o is not None and hasattr(mod, "post_model"):
                    o = mod.post_model(rec["desc"], o)
                if o is not None and rec["dis"] and not gtlib.compare(rec["obs"], o):
                    rec["dis"] = []
                    rec["model"] = o
                    rec["variant"] = "repaired"
    return recs, errors, t_impl, t_coq


def main(argv=None):
    import argparse
    ap = argparse.ArgumentParser()
    ap.add_argument("prop")
    ap.add_argument("--tier", default=os.environ.get("VERIF_TIER", "quick"))
    ap.add_argument("--replay", default=None)
    ap.add_argument("--keep", action="store_true")
    a = ap.parse_args(argv)
    prop = a.prop
    tier = a.tier if a.tier in ("quick", "thorough") else "quick"
    seed = int(os.environ.get("VERIF_SEED", "20260927"))
    t_start = time.time()
    mod = importlib.import_module("harness.props.%s" % prop.lower())
    workdir = os.path.join(VERIF, "build", "run-%s-%d" % (prop, os.getpid()))
    os.makedirs(workdir, exist_ok=True)
    log = []
    violations = []   # (replay payload, found_input)
    known_seen = []

    # ---- replay mode
    if a.replay:
        payload = json.load(open(a.replay))
        descs = [payload["desc"]] if "desc" in payload else []
        ok_build, _ = build_coq(log)
        recs, errors, _, _ = run_cases(mod, descs, workdir)
        known = [k for k in load_known() if k.get("property") == prop and k.get("status") == "known"]
        bad = False
        for rec in recs:
            print("impl_error:", rec["impl_error"])
            print("disagreements (impl vs model):", rec["dis"][:10])
            print("property-oracle failures:", json.dumps(rec["fails"][:10], default=str))
            for f in rec["fails"]:
                if not any(k["key"] == f.get("key") for k in known):
                    bad = True
            if rec["dis"]:
                bad = True
        if not a.keep:
            shutil.rmtree(workdir, ignore_errors=True)
        if bad:
            print("VIOLATION property=%s replay=%s" % (prop, a.replay))
            return 1
        print("replay: property holds on this input now")
        return 0

    # ---- 1. proof obligations
    ok_build, build_tail = build_coq(log)
    forb = check_forbidden()
    pf = check_props_files(mod.PROPS_FILE, workdir, tier) if ok_build else dict(ok=False, theorems=[], closed=0, axioms=[], stderr=build_tail, cmd="make")
    obligations = len(pf["theorems"])
    discharged = obligations if (pf["ok"] and ok_build and not forb) else 0
    proof_ok = ok_build and pf["ok"] and not forb and obligations > 0
    if tier == "thorough" and proof_ok and not pf.get("coqchk_ok", True):
        proof_ok = False
    if hasattr(mod, "pre_check"):
        extra = mod.pre_check(workdir, tier)     # e.g. regenerated schema (C18): obligations over a model regenerated from /repo
        n_extra = len(extra.get("theorems", []))
        obligations += n_extra
        if extra.get("ok"):
            discharged += n_extra if discharged or not pf["theorems"] else 0
        else:
            proof_ok = False
            pf = dict(pf)
            pf["theorems"] = list(pf["theorems"]) + ["regenerated:" + t for t in extra.get("theorems", ["schema"])]
            pf["stderr"] = (pf.get("stderr") or "") + "\n" + str(extra.get("error"))
    else:
        extra = None

    # ---- 2. cases: corpus first, then generated
    g = gtlib.Gen(seed)
    descs = []
    for p in sorted(glob.glob(os.path.join(VERIF, "corpus", prop + "-*.json"))):
        descs.append(json.load(open(p)))
    n_corpus = len(descs)
    descs += mod.gen_descs(g, tier)
    # source drift (harness/drift.py): the library functions whose normalised AST differs from the baseline the model was
    # validated against.  No verdict; where the drift touches files this property is anchored in, the quick tier is widened
    # with cases of the thorough generator (the search grows exactly when the code has changed).
    drifted = drift.changed()
    anchored = set(PROP_FILES.get(prop, []))
    drift_here = [n for n in drifted if n.split("::")[0] in anchored or n == "<no baseline>"]
    n_widened = 0
    if tier == "quick" and drift_here and os.environ.get("VERIF_NO_WIDEN") != "1":
        have = {fingerprint(d) for d in descs}
        extra = [d for d in mod.gen_descs(gtlib.Gen(seed + 1), "thorough") if fingerprint(d) not in have]
        budget = min(len(extra), max(40, 3 * len(descs)), getattr(mod, "WIDEN_MAX", 400))
        step = max(1, len(extra) // max(1, budget))
        extra = extra[::step][:budget]
        n_widened = len(extra)
        descs += extra

    # ---- 3. both sides
    recs, errors, t_impl, t_coq = run_cases(mod, descs, workdir)

    # ---- 4. verdict
    known = [k for k in load_known() if k.get("property") == prop and k.get("status") == "known"]
    known_keys = {k["key"]: k for k in known}
    oracle_viol = []
    for rec in recs:
        for f in rec["fails"]:
            if f.get("key") in known_keys:
                known_seen.append(f["key"])
            else:
                oracle_viol.append((rec, f))
    dis_recs = [rec for rec in recs if rec["dis"]]
    searched = 0
    if (dis_recs or not proof_ok) and not oracle_viol and hasattr(mod, "search_descs"):
        # correspondence or a proof broke: search for a failing input of the property itself
        sdescs = mod.search_descs(g, [r["desc"] for r in dis_recs], tier)
        srecs, _, _, _ = run_cases(mod, sdescs, os.path.join(workdir, "search"))
        searched = len(srecs)
        for rec in srecs:
            for f in rec["fails"]:
                if f.get("key") not in known_keys:
                    oracle_viol.append((rec, f))

    lines = []
    for key in sorted(set(known_seen)):
        lines.append("KNOWN-FINDING: property=%s %s" % (prop, known_keys[key]["what"]))
    exit_code = 0
    n_viol = 0
    if oracle_viol:
        rec, f = oracle_viol[0]
        payload = dict(property=prop, seed=seed, tier=tier, desc=rec["desc"], failing_input_found=True,
                       oracle_failure=f, impl_error=rec["impl_error"], disagreements=rec["dis"][:5],
                       broken="property-oracle:%s" % f.get("what"), n_failing_cases=len(oracle_viol))
        path = write_replay(prop, payload)
        lines.append("VIOLATION property=%s replay=%s" % (prop, path))
        exit_code = 1
        n_viol = len(oracle_viol)
    elif dis_recs:
        rec = dis_recs[0]
        payload = dict(property=prop, seed=seed, tier=tier, desc=rec["desc"], failing_input_found=False,
                       impl_error=rec["impl_error"], disagreements=rec["dis"][:10],
                       broken="correspondence:%s" % mod.scenario(rec["desc"]), n_disagreeing_cases=len(dis_recs),
                       searched=searched)
        path = write_replay(prop, payload)
        lines.append("VIOLATION property=%s replay=%s no-failing-input-found" % (prop, path))
        exit_code = 1
        n_viol = len(dis_recs)
    elif not proof_ok:
        payload = dict(property=prop, seed=seed, tier=tier, failing_input_found=False,
                       broken="theorem:%s" % ",".join(pf["theorems"]) if pf["theorems"] else "build",
                       forbidden=forb, stderr=pf.get("stderr"), build=build_tail[-1500:], coqchk=pf.get("coqchk"))
        path = write_replay(prop, payload)
        lines.append("VIOLATION property=%s replay=%s no-failing-input-found" % (prop, path))
        exit_code = 1
        n_viol = 1
    if errors and exit_code == 0:
        payload = dict(property=prop, seed=seed, tier=tier, failing_input_found=False,
                       broken="model-evaluation", errors=errors[:3])
        path = write_replay(prop, payload)
        lines.append("VIOLATION property=%s replay=%s no-failing-input-found" % (prop, path))
        exit_code = 1
        n_viol = 1

    # ---- 5. evidence
    fps = {}
    hist = Counter()
    for rec in recs:
        d = rec["desc"]
        if mod.nontrivial(d):
            fps[fingerprint(d)] = 1
        for k, v in mod.hist(d).items():
            hist["%s=%s" % (k, v)] += 1
    maxerr = 0.0
    for rec in recs:
        if rec["obs"] is not None and rec.get("model") is not None and not rec["dis"]:
            maxerr = max(maxerr, gtlib.max_rel_err(rec["obs"], rec["model"]))
    samples = []
    for rec in recs[n_corpus:n_corpus + 2]:
        samples.append(dict(desc=rec["desc"], coq_term=mod.coq_term(rec["desc"])[:1500],
                            observed=[(n, a[:6].tolist()) for n, a, _ in (rec["obs"].items if rec["obs"] else [])][:8]))
    samples.append(dict(obligations=pf["theorems"]))
    ev = dict(
        property_id=prop, tier=tier, seed=seed, level="proof",
        coverage=dict(
            obligations=obligations, discharged=discharged,
            checker_cmd="make -C /verif/coq (coq_makefile, full .vo) ; " + pf.get("cmd", ""),
            trusted_base=TRUSTED_BASE + getattr(mod, "TRUSTED_EXTRA", []),
            axioms=pf["axioms"], closed_under_global_context=pf["closed"],
            coqchk=(pf.get("coqchk", "")[-1200:] if tier == "thorough" else "thorough tier only"),
            forbidden_commands_found=forb,
            evaluations=len(recs), distinct_nontrivial=len(fps),
            rule=mod.RULE, samples=samples,
            traces_validated_against_impl=sum(1 for r in recs if not r["dis"]),
            disagreements_checked=len(dis_recs), search_cases=searched,
            input_histogram=dict(hist), rejected_ill_conditioned=g.rejected_cond,
            max_rel_err_observed=maxerr, corpus_cases=n_corpus,
            known_findings_seen=sorted(set(known_seen)),
            impl_wall_s=round(t_impl, 1), model_wall_s=round(t_coq, 1),
            explanation=getattr(mod, "EXPLANATION", ""),
            implementation_coverage=cover_summary(prop, drifted),
            source_drift=dict(changed_functions=drifted[:40], in_anchored_files=drift_here[:40], extra_cases_from_thorough_generator=n_widened,
                              baseline=os.path.relpath(drift.BASELINE, VERIF)),
            extra=extra,
        ),
        assumptions=getattr(mod, "ASSUMPTIONS", []),
        wall_s=round(time.time() - t_start, 1), violations=n_viol)
    os.makedirs(OUTDIR("evidence"), exist_ok=True)
    tmp = os.path.join(OUTDIR("evidence"), ".%s.json.tmp" % prop)
    json.dump(ev, open(tmp, "w"), indent=1, default=str)
    os.replace(tmp, os.path.join(OUTDIR("evidence"), "%s.json" % prop))
    for ln in lines:
        print(ln)
    print("%s tier=%s seed=%d: theorems %d/%d, cases %d (nontrivial distinct %d), agree %d, max rel err %.2e, impl %.0fs, model %.0fs, wall %.0fs"
          % (prop, tier, seed, discharged, obligations, len(recs), len(fps),
             sum(1 for r in recs if not r["dis"]), maxerr, t_impl, t_coq, time.time() - t_start))
    if exit_code == 0 and not a.keep:
        shutil.rmtree(workdir, ignore_errors=True)
    return exit_code


if __name__ == "__main__":
    sys.exit(main())
