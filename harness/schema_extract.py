# Translator for C18: re-derives, from /repo's current source (Python ast, fail-closed), the pytree schema
# of every dataclass of the library -- declared fields (with init flag, inherited ones resolved), every
# attribute assigned on self, the keys written by to_dict -- and how the registered flatten function
# selects what it exports.  The result is printed as a Coq file (gen/Schema.v) over which the schema
# theorems of coq/schema/SchemaThm.v are re-checked on every run.
import ast, os, sys

FILES = ["factor.py", "measure.py", "pdf.py", "conditional.py", "approximate_conditional.py",
         "experimental/truncated_measure.py"]


class Unsupported(Exception):
    pass


def is_dataclass_decorator(d):
    if isinstance(d, ast.Name):
        return d.id == "dataclass"
    if isinstance(d, ast.Call):
        return is_dataclass_decorator(d.func)
    if isinstance(d, ast.Attribute):
        return d.attr == "dataclass"
    return False


def field_init_flag(value):
    """True unless the default is field(..., init=False)"""
    if isinstance(value, ast.Call) and isinstance(value.func, (ast.Name, ast.Attribute)):
        name = value.func.id if isinstance(value.func, ast.Name) else value.func.attr
        if name == "field":
            for kw in value.keywords:
                if kw.arg == "init":
                    if isinstance(kw.value, ast.Constant) and isinstance(kw.value.value, bool):
                        return kw.value.value
                    raise Unsupported("field(init=<non-literal>)")
    return True


def self_attrs(cls):
    out = []
    for node in ast.walk(cls):
        targets = []
        if isinstance(node, ast.Assign):
            targets = node.targets
        elif isinstance(node, (ast.AugAssign, ast.AnnAssign)):
            targets = [node.target]
        for t in targets:
            for s in ast.walk(t):
                if isinstance(s, ast.Attribute) and isinstance(s.value, ast.Name) and s.value.id == "self" and isinstance(s.ctx, ast.Store):
                    if s.attr not in out:
                        out.append(s.attr)
        if isinstance(node, ast.Call) and isinstance(node.func, ast.Name) and node.func.id == "setattr":
            raise Unsupported("setattr(...) in class %s" % cls.name)
    return out


def to_dict_keys(cls):
    for node in cls.body:
        if isinstance(node, ast.FunctionDef) and node.name == "to_dict":
            keys = None
            for n in ast.walk(node):
                if isinstance(n, ast.Dict):
                    ks = []
                    for k in n.keys:
                        if not (isinstance(k, ast.Constant) and isinstance(k.value, str)):
                            raise Unsupported("non-literal to_dict key in %s" % cls.name)
                        ks.append(k.value)
                    keys = ks
            if keys is None:
                raise Unsupported("to_dict without a dict literal in %s" % cls.name)
            return keys
    return None


def extract(repo):
    base = os.path.join(repo, "gaussian_toolbox")
    classes = []
    for f in FILES:
        tree = ast.parse(open(os.path.join(base, f)).read())
        for node in tree.body:
            if isinstance(node, ast.ClassDef) and any(is_dataclass_decorator(d) for d in node.decorator_list):
                bases = []
                for b in node.bases:
                    if isinstance(b, ast.Name):
                        bases.append(b.id)
                    elif isinstance(b, ast.Attribute):
                        bases.append(b.attr)
                    else:
                        raise Unsupported("base class expression in %s" % node.name)
                fields = []
                for st in node.body:
                    if isinstance(st, ast.AnnAssign) and isinstance(st.target, ast.Name):
                        fields.append((st.target.id, field_init_flag(st.value) if st.value is not None else True))
                classes.append(dict(name=node.name, file=f, bases=bases, own_fields=fields, self_attrs=self_attrs(node),
                                    to_dict=to_dict_keys(node)))
    byname = {c["name"]: c for c in classes}

    def all_fields(c, seen=()):
        out = {}
        for b in reversed(c["bases"]):            # MRO approximation: later bases first, then overridden
            if b in byname and b not in seen:
                out.update(all_fields(byname[b], seen + (c["name"],)))
        for n, i in c["own_fields"]:
            out[n] = i
        return out

    def all_attrs(c, seen=()):
        out = []
        for b in c["bases"]:
            if b in byname and b not in seen:
                for a in all_attrs(byname[b], seen + (c["name"],)):
                    if a not in out:
                        out.append(a)
        for a in c["self_attrs"]:
            if a not in out:
                out.append(a)
        return out

    def inherited_to_dict(c, seen=()):
        if c["to_dict"] is not None:
            return c["to_dict"]
        for b in c["bases"]:
            if b in byname and b not in seen:
                r = inherited_to_dict(byname[b], seen + (c["name"],))
                if r is not None:
                    return r
        return None

    for c in classes:
        c["fields"] = sorted(all_fields(c).items())
        c["attrs"] = all_attrs(c)
        c["dict_keys"] = inherited_to_dict(c)
    # how flatten selects its keys (utils/dataclass.py)
    src = open(os.path.join(base, "utils", "dataclass.py")).read()
    tree = ast.parse(src)
    mode = None
    for node in ast.walk(tree):
        if isinstance(node, ast.FunctionDef) and node.name == "register_dataclass_type_with_jax_tree_util":
            seg = ast.get_source_segment(src, node)
            uses_dict = "__dict__" in seg
            filters = "__dataclass_fields__" in seg or "dataclasses.fields" in seg
            if uses_dict and filters:
                mode = "fields"
            elif uses_dict:
                mode = "dict"
            elif filters:
                mode = "fields"
            else:
                raise Unsupported("cannot tell what flatten exports")
            unzip = "jax.util.unzip2" in seg
    if mode is None:
        raise Unsupported("pytree registration function not found")
    return dict(classes=classes, flatten_mode=mode, uses_removed_unzip2=unzip, tests=control_flow_tests(repo))


# ---- control-flow tests (trace safety): every `if` / `while` / conditional-expression / assert test of the library's
# numerical code, as a small expression tree whose staticness is decided IN COQ (SchemaThm.control_flow_static):
# static = decided by None-ness, shapes / ndim / len, the integer size attributes R, D, Dx, Dy, Da, Dk, Du, Dphi, boolean
# keyword flags, isinstance and literals -- never by the VALUE of an array (which is a tracer under jit / vmap / grad).
DIM_ATTRS = {"R", "D", "Dx", "Dy", "Da", "Dk", "Du", "Dphi", "ndim", "shape", "num_cond_dim", "num_control_dim", "num_dim"}
CF_FILES = ["factor.py", "measure.py", "pdf.py", "conditional.py", "approximate_conditional.py",
            "experimental/truncated_measure.py", "experimental/misc.py", "utils/linalg.py"]


def _bool_params(fn):
    out = set()
    args = fn.args
    pos = args.posonlyargs + args.args
    for a, dflt in zip(pos[len(pos) - len(args.defaults):], args.defaults):
        if isinstance(dflt, ast.Constant) and isinstance(dflt.value, bool):
            out.add(a.arg)
    for a, dflt in zip(args.kwonlyargs, args.kw_defaults):
        if dflt is not None and isinstance(dflt, ast.Constant) and isinstance(dflt.value, bool):
            out.add(a.arg)
    for a in pos + args.kwonlyargs:
        if a.annotation is not None and ast.unparse(a.annotation) == "bool":
            out.add(a.arg)
    return out


def _texpr(node, flags):
    q = lambda t: '"%s"' % ast.unparse(t).replace('"', "'").replace("\\", "/")[:70]
    if isinstance(node, ast.Constant):
        return "TConst" if isinstance(node.value, (bool, int, str, type(None))) else "(TOther %s)" % q(node)
    if isinstance(node, ast.Compare):
        if len(node.ops) == 1 and isinstance(node.ops[0], (ast.Is, ast.IsNot, ast.Eq, ast.NotEq)) and isinstance(node.comparators[0], ast.Constant) and node.comparators[0].value is None:
            return "TNone"
        return "(TCmp [%s])" % "; ".join(_texpr(x, flags) for x in [node.left] + node.comparators)
    if isinstance(node, ast.BoolOp):
        return "(TAnd [%s])" % "; ".join(_texpr(x, flags) for x in node.values)
    if isinstance(node, ast.UnaryOp) and isinstance(node.op, ast.Not):
        return "(TNot %s)" % _texpr(node.operand, flags)
    if isinstance(node, ast.Name):
        return '(TFlag "%s")' % node.id if node.id in flags else "(TOther %s)" % q(node)
    if isinstance(node, ast.Attribute) and node.attr in DIM_ATTRS:
        return "TDim"
    if isinstance(node, ast.Subscript) and isinstance(node.value, ast.Attribute) and node.value.attr == "shape":
        return "TDim"
    if isinstance(node, ast.Call) and isinstance(node.func, ast.Name) and node.func.id in ("isinstance", "len"):
        return "TDim"
    if isinstance(node, ast.Tuple):
        return "(TCmp [%s])" % "; ".join(_texpr(x, flags) for x in node.elts)
    if isinstance(node, ast.BinOp) and isinstance(node.op, (ast.Add, ast.Sub, ast.Mult, ast.FloorDiv)):
        return "(TCmp [%s; %s])" % (_texpr(node.left, flags), _texpr(node.right, flags))
    return "(TOther %s)" % q(node)


def control_flow_tests(repo):
    import warnings
    base = os.path.join(repo, "gaussian_toolbox")
    out = []
    for f in CF_FILES:
        with warnings.catch_warnings():
            warnings.simplefilter("ignore")
            tree = ast.parse(open(os.path.join(base, f)).read())
        def visit(node, flags, where):
            for ch in ast.iter_child_nodes(node):
                if isinstance(ch, (ast.FunctionDef, ast.AsyncFunctionDef)):
                    visit(ch, flags | _bool_params(ch), where + [ch.name])
                elif isinstance(ch, ast.ClassDef):
                    visit(ch, flags, where + [ch.name])
                elif isinstance(ch, ast.Lambda):
                    visit(ch, flags, where)
                else:
                    if isinstance(ch, (ast.If, ast.While, ast.IfExp, ast.Assert)):
                        out.append(("%s:%s" % (f, ".".join(where)), ch.lineno, _texpr(ch.test, flags)))
                    visit(ch, flags, where)
        visit(tree, set(), [])
    return out


def coq_str(s):
    return '"%s"' % s


def to_coq(sch):
    lines = ["(* GENERATED by harness/schema_extract.py from the current source of /repo -- do not edit *)",
             "From Coq Require Import List String Bool.", "Import ListNotations.", "Open Scope string_scope.",
             "Record cls := Cls { cname : string; cfields : list (string * bool); cattrs : list string; cdict : option (list string) }.",
             "Definition flatten_fields_only : bool := %s." % ("true" if sch["flatten_mode"] == "fields" else "false"),
             "Definition uses_removed_unzip2 : bool := %s." % ("true" if sch["uses_removed_unzip2"] else "false"),
             "Definition classes : list cls := ["]
    items = []
    for c in sch["classes"]:
        fl = "[" + "; ".join("(%s, %s)" % (coq_str(n), "true" if i else "false") for n, i in c["fields"]) + "]"
        at = "[" + "; ".join(coq_str(a) for a in c["attrs"]) + "]"
        dk = "None" if c["dict_keys"] is None else "(Some [" + "; ".join(coq_str(k) for k in c["dict_keys"]) + "])"
        items.append("  Cls %s %s %s %s" % (coq_str(c["name"]), fl, at, dk))
    lines.append(";\n".join(items))
    lines.append("].")
    lines += ["Inductive texpr := TNone | TConst | TDim | TFlag (s : string) | TNot (e : texpr) | TAnd (l : list texpr) | TCmp (l : list texpr) | TOther (s : string).",
              "Definition tests : list (string * nat * texpr) := ["]
    lines.append(";\n".join('  (%s, %d, %s)' % (coq_str(w), ln, e) for w, ln, e in sch.get("tests", [])))
    lines.append("].")
    return "\n".join(lines) + "\n"


if __name__ == "__main__":
    repo = sys.argv[1] if len(sys.argv) > 1 else "/repo"
    sch = extract(repo)
    sys.stdout.write(to_coq(sch))
