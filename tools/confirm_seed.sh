#!/bin/bash
# confirm a seeded change in a scratch worktree: demo passes without, fails with, test-suite passes with.
# usage: confirm_seed.sh <dir with patch.diff, demo.py> ; writes <dir>/confirm.txt
D=$1; ID=$(basename $D); WT=/tmp/cf-$ID
export PYTHONWARNINGS=ignore JAX_PLATFORMS=cpu
git -C /repo worktree add -q --detach $WT HEAD || exit 2
{
echo "base: $(git -C /repo rev-parse --short HEAD)"
(cd $WT && PYTHONPATH=$WT timeout 900 /venv/bin/python $D/demo.py > $D/demo_clean.out 2>&1); echo "demo without patch: exit $?"
if git -C $WT apply $D/patch.diff 2>/dev/null || git -C $WT apply -3 $D/patch.diff 2>/dev/null; then echo "patch applies"; else echo "PATCH DOES NOT APPLY"; fi
(cd $WT && PYTHONPATH=$WT timeout 900 /venv/bin/python $D/demo.py > $D/demo_patched.out 2>&1); echo "demo with patch: exit $?"
(cd $WT && PYTHONPATH=$WT timeout 3000 /venv/bin/python -m pytest -q -p no:cacheprovider tests 2>&1 | tail -1)
} > $D/confirm.txt 2>&1
git -C /repo worktree remove --force $WT
cat $D/confirm.txt
