#!/usr/bin/env python3
"""From the evidence files: per check, how many functions of its anchored files its implementation runs executed; and the
functions that NO check anchored in their file executed (not tied to the model by any correspondence)."""
import json, glob, os
V = os.path.dirname(os.path.dirname(os.path.abspath(__file__)))
cov = {}
for p in sorted(glob.glob(os.path.join(V, "evidence", "C*.json"))):
    c = json.load(open(p))["coverage"].get("implementation_coverage")
    if c and c.get("measured"):
        cov[os.path.basename(p)[:-5]] = c
        print("%s: %d / %d functions of its anchored files exercised (mean line fraction %.2f)" % (
            os.path.basename(p)[:-5], c["functions_exercised"], c["functions_in_anchored_files"], c["mean_line_fraction_of_exercised"]))
cands = set().union(*[set(c["not_exercised"]) for c in cov.values()]) if cov else set()
never = sorted(f for f in cands if all(f in c["not_exercised"] for c in cov.values() if f.split("::")[0] in c.get("anchored_files", [])))
print("\nnot executed by any check anchored in their file (%d):" % len(never))
for f in never:
    print("  ", f)
