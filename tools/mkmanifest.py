#!/usr/bin/env python3
"""Regenerates MANIFEST.json from tools/claims.json (one entry per claimed property)."""
import json, os
V = os.path.dirname(os.path.dirname(os.path.abspath(__file__)))
claims = json.load(open(os.path.join(V, "tools", "claims.json")))
props = [json.loads(l) for l in open(os.path.join(V, "properties.jsonl"))]
checks, na = [], []
for p in props:
    pid = p["id"]
    c = claims.get(pid)
    if c is None or c.get("not_applicable"):
        na.append(dict(property_id=pid, reason=(c or {}).get("not_applicable", "check not built yet in this round; no claim is made")))
        continue
    checks.append(dict(
        property_id=pid,
        quick_cmd="./check %s --tier quick" % pid,
        thorough_cmd="./check %s --tier thorough" % pid,
        evidence_file="/verif/evidence/%s.json" % pid,
        replay_cmd_template="./check %s --replay {path}" % pid,
        engine="coq-model+correspondence",
        level_claimed=dict(category="proof", text=c["text"], design_ref=c.get("design_ref", "DESIGN.md section 7, " + pid)),
        level_note=c["note"],
        technique=c.get("technique", "machine-checked proof in Coq 8.16 (MathComp) about an executable Gallina model; model tied to /repo by a differential correspondence check (vm_compute at exact rationals vs. the JAX implementation)"),
    ))
m = dict(
    version=1,
    setup_cmd="cd /verif/coq && coq_makefile -f _CoqProject -o Makefile > /dev/null && timeout 3400 make -j16 > /verif/build_setup.log 2>&1; tail -3 /verif/build_setup.log",
    hooks=dict(guard="GAUSSIAN_TOOLBOX_VERIF", enable="no hooks are needed: checks observe public attributes and return values only (guard name reserved, unused)",
               baseline_off_cmd="cd /repo && /venv/bin/python -m pytest -ra -q -p no:cacheprovider --timeout=900 --continue-on-collection-errors",
               source_commits=[], add_only=True),
    engines=[dict(name="coq-model+correspondence", path="/verif/check",
                  serves_properties=[c["property_id"] for c in checks],
                  kind_free_text="Coq 8.16.1 + MathComp 1.15 development under /verif/coq (model/, proofs/, props/), harness/ runs the model (vm_compute at Qc) and the implementation on the same seeded cases")],
    checks=checks,
    notes="Known findings and fixed defects: /verif/known_findings.json. Design: /verif/DESIGN.md.",
    not_applicable=na,
)
json.dump(m, open(os.path.join(V, "MANIFEST.json"), "w"), indent=1)
print("claimed:", [c["property_id"] for c in checks])
