#!/usr/bin/env python3
"""Mutation testing of the verification machinery itself (not a check; never touches /repo's working tree).

  tools/mutate.py list                      -> enumerate syntactic mutants of the library (JSON lines: id, file, line, kind, props)
  tools/mutate.py run <id> [<id> ...]       -> for each mutant: scratch worktree, apply, run the quick checks of the properties whose
                                               anchors cover the mutated line, print KILLED-by / SURVIVED; evidence into a scratch dir

Mutation operators (one source position each, text-level so that the rest of the file is untouched):
  einsum-out    two letters of an einsum result are swapped (a transposition of the output)
  einsum-in     two letters of one einsum operand are swapped
  plus-minus    a binary + / - between array expressions is flipped
  half-one      the constants 0.5 / .5 -> 1.0, 2.0 / 2. -> 1.0
  tile-reps     the repetition tuple of a jnp.tile is reversed
  cmp           > -> >= , < -> <= in a comparison of dimensions
Mutants are mapped to properties through the line ranges in properties.jsonl (anchors.mechanism[].where)."""
import ast, json, os, re, subprocess, sys, hashlib, warnings

V = os.path.dirname(os.path.dirname(os.path.abspath(__file__)))
REPO = "/repo"
FILES = ["factor.py", "measure.py", "pdf.py", "conditional.py", "approximate_conditional.py", "experimental/truncated_measure.py", "utils/linalg.py"]


def anchors():
    out = []
    for l in open(os.path.join(V, "properties.jsonl")):
        p = json.loads(l)
        for m in p["anchors"].get("mechanism", []) + p["anchors"].get("state", []):
            for seg in re.split(r";\s*", m.get("where", "")):
                mm = re.match(r"\s*(gaussian_toolbox/[\w/]+\.py):([\d,\s-]+)", seg)
                if not mm:
                    continue
                for r in re.findall(r"(\d+)(?:-(\d+))?", mm.group(2)):
                    a = int(r[0]); b = int(r[1]) if r[1] else a
                    out.append((p["id"], mm.group(1), a, b))
    return out


def props_for(file, line, anc):
    return sorted({pid for pid, f, a, b in anc if f == file and a - 3 <= line <= b + 3})


def enumerate_mutants():
    anc = anchors()
    muts = []
    for f in FILES:
        path = os.path.join(REPO, "gaussian_toolbox", f)
        src = open(path).read()
        lines = src.split("\n")
        with warnings.catch_warnings():
            warnings.simplefilter("ignore")
            tree = ast.parse(src)
        rel = "gaussian_toolbox/" + f
        doc = set()
        for n in ast.walk(tree):
            if isinstance(n, ast.Expr) and isinstance(n.value, ast.Constant) and isinstance(n.value.value, str):
                doc.update(range(n.lineno, n.end_lineno + 1))
        def add(kind, lineno, col, old, new):
            if lineno in doc:
                return
            line = lines[lineno - 1]
            if line[col:col + len(old)] != old:
                return
            props = props_for(rel, lineno, anc)
            if not props:
                return
            mid = hashlib.sha1(("%s:%d:%d:%s:%s" % (rel, lineno, col, old, new)).encode()).hexdigest()[:8]
            muts.append(dict(id=mid, file=rel, line=lineno, col=col, old=old, new=new, kind=kind, props=props, text=line.strip()[:110]))
        for n in ast.walk(tree):
            if isinstance(n, ast.Call) and ast.unparse(n.func) == "jnp.einsum" and n.args and isinstance(n.args[0], ast.Constant) and isinstance(n.args[0].value, str):
                c = n.args[0]
                spec = c.value
                if c.lineno != c.end_lineno or "->" not in spec:
                    continue
                raw = lines[c.lineno - 1][c.col_offset:c.end_col_offset]
                q = raw[0]
                ins, out = spec.split("->")
                o = out.strip()
                if len(o) >= 3:
                    new_o = o[0] + o[2] + o[1] + o[3:]
                    add("einsum-out", c.lineno, c.col_offset, raw, q + ins + "->" + out.replace(o, new_o) + q)
                ops = ins.split(",")
                for k, op in enumerate(ops):
                    t = op.strip()
                    if len(t) >= 3 and t[1] != t[2]:
                        ops2 = list(ops); ops2[k] = op.replace(t, t[0] + t[2] + t[1] + t[3:])
                        add("einsum-in", c.lineno, c.col_offset, raw, q + ",".join(ops2) + "->" + out + q)
                        break
            if isinstance(n, ast.BinOp) and isinstance(n.op, (ast.Add, ast.Sub)) and n.left.end_lineno == n.right.lineno:
                seg = lines[n.left.end_lineno - 1][n.left.end_col_offset:n.right.col_offset]
                m = re.fullmatch(r"(\s*)([+-])(\s*)", seg)
                simple = isinstance(n.left, ast.Constant) or isinstance(n.right, ast.Constant)
                if m and not simple:
                    add("plus-minus", n.left.end_lineno, n.left.end_col_offset, seg, m.group(1) + ("-" if m.group(2) == "+" else "+") + m.group(3))
            if isinstance(n, ast.Constant) and isinstance(n.value, float) and n.value in (0.5, 2.0) and n.lineno == n.end_lineno:
                raw = lines[n.lineno - 1][n.col_offset:n.end_col_offset]
                add("half-one", n.lineno, n.col_offset, raw, "1.0")
            if isinstance(n, ast.Call) and ast.unparse(n.func) == "jnp.tile" and len(n.args) == 2 and isinstance(n.args[1], (ast.Tuple, ast.List)) and len(n.args[1].elts) >= 2:
                t = n.args[1]
                if t.lineno == t.end_lineno:
                    raw = lines[t.lineno - 1][t.col_offset:t.end_col_offset]
                    elts = [ast.unparse(e) for e in t.elts]
                    if elts != elts[::-1]:
                        br = ("(", ")") if isinstance(t, ast.Tuple) else ("[", "]")
                        add("tile-reps", t.lineno, t.col_offset, raw, br[0] + ", ".join(elts[::-1]) + br[1])
            if isinstance(n, ast.Compare) and len(n.ops) == 1 and isinstance(n.ops[0], (ast.Gt, ast.Lt)) and n.left.end_lineno == n.comparators[0].lineno:
                seg = lines[n.left.end_lineno - 1][n.left.end_col_offset:n.comparators[0].col_offset]
                m = re.fullmatch(r"(\s*)([<>])(\s*)", seg)
                if m:
                    add("cmp", n.left.end_lineno, n.left.end_col_offset, seg, m.group(1) + m.group(2) + "=" + m.group(3))
    seen, out = set(), []
    for m in muts:
        if m["id"] not in seen:
            seen.add(m["id"]); out.append(m)
    return out


def run(ids):
    muts = {m["id"]: m for m in enumerate_mutants()}
    for mid in ids:
        if mid not in muts:
            print(json.dumps(dict(id=mid, verdict="unknown-id"))); continue
        m = muts[mid]
        wt = "/tmp/mut-%s" % mid
        subprocess.run(["git", "-C", REPO, "worktree", "add", "-q", "--detach", wt, "HEAD"], check=True)
        try:
            path = os.path.join(wt, m["file"])
            lines = open(path).read().split("\n")
            ln = lines[m["line"] - 1]
            assert ln[m["col"]:m["col"] + len(m["old"])] == m["old"], (ln, m)
            lines[m["line"] - 1] = ln[:m["col"]] + m["new"] + ln[m["col"] + len(m["old"]):]
            open(path, "w").write("\n".join(lines))
            r = subprocess.run(["/venv/bin/python", "-c", "import gaussian_toolbox.approximate_conditional, gaussian_toolbox.experimental.truncated_measure"],
                               cwd=wt, env=dict(os.environ, PYTHONPATH=wt, JAX_PLATFORMS="cpu", PYTHONWARNINGS="ignore"), capture_output=True, text=True)
            if r.returncode != 0:
                print(json.dumps(dict(id=mid, verdict="does-not-import"))); continue
            killed = []
            for p in m["props"]:
                env = dict(os.environ, VERIF_REPO=wt, VERIF_OUT="/tmp/mut-out-%s" % mid)
                r = subprocess.run(["./check", p, "--tier", "quick"], cwd=V, env=env, capture_output=True, text=True, timeout=3600)
                if "VIOLATION" in r.stdout:
                    killed.append(p + ("(no-input)" if "no-failing-input-found" in r.stdout else ""))
                    break
            print(json.dumps(dict(id=mid, file=m["file"], line=m["line"], kind=m["kind"], props=m["props"], verdict=("KILLED" if killed else "SURVIVED"),
                                  by=killed, text=m["text"], new=m["new"])), flush=True)
        finally:
            subprocess.run(["git", "-C", REPO, "worktree", "remove", "--force", wt])
            subprocess.run(["rm", "-rf", "/tmp/mut-out-%s" % mid])


if __name__ == "__main__":
    if sys.argv[1] == "list":
        for m in enumerate_mutants():
            print(json.dumps(m))
    else:
        run(sys.argv[2:])
