#!/bin/bash
# usage: tools/mutate_run.sh <file with mutant ids> : build the development in this snapshot, then run the mutants
cd "$(dirname "$0")/.."
(cd coq && coq_makefile -f _CoqProject -o Makefile > /dev/null && timeout 3400 make -j6 > ../build_setup.log 2>&1; tail -1 ../build_setup.log)
/venv/bin/python tools/mutate.py run $(cat $1)
