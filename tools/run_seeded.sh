#!/bin/bash
# apply a seeded change to /repo, run the quick checks of the given properties, undo it.
# usage: tools/run_seeded.sh <seed-id> <prop> [<prop> ...]
S=/verif/seeded/$1; shift
git -C /repo diff --quiet || { echo "/repo has local changes"; exit 2; }
git -C /repo apply $S/patch.diff || { echo "patch does not apply"; exit 2; }
for p in "$@"; do (cd /verif && ./check $p --tier quick 2>&1 | tail -3); echo "exit=$? ($p)"; done
git -C /repo checkout -- .
