#!/bin/bash
# run quick checks against a seeded change WITHOUT touching /repo: scratch worktree + VERIF_REPO, output to a scratch dir.
# usage: tools/run_seeded_wt.sh <dir with patch.diff> <prop> [<prop> ...]   (prints the VIOLATION / summary lines)
D=$1; shift; ID=$(basename $D); WT=/tmp/rs-$ID-$$
git -C /repo worktree add -q --detach $WT HEAD || exit 2
git -C $WT apply $D/patch.diff || { echo "patch does not apply"; git -C /repo worktree remove --force $WT; exit 2; }
export VERIF_REPO=$WT VERIF_OUT=/tmp/rs-out-$ID
for p in "$@"; do (cd /verif && ./check $p --tier quick 2>&1 | grep "VIOLATION\|KNOWN-FINDING\|tier=" | cut -c1-260); echo "-- $ID vs $p"; done
git -C /repo worktree remove --force $WT
