#!/bin/bash
# usage: tools/seed_pipeline.sh <srcdir with patch.diff demo.py meta.json> <seed id, e.g. C12c> <prop> [<prop> ...]
# copies the seed to /verif/seeded/<id>, confirms it (demo clean/patched, test-suite with the patch) and runs the given quick checks
# against a scratch worktree with the patch (never touches /repo's working tree, /verif/evidence or /verif/replays).
SRC=$1; ID=$2; shift 2
D=/verif/seeded/$ID; mkdir -p $D
cp $SRC/patch.diff $SRC/demo.py $SRC/meta.json $D/
bash /verif/tools/confirm_seed.sh $D
bash /verif/tools/run_seeded_wt.sh $D "$@" 2>&1 | tee $D/checks.txt
