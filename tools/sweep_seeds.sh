#!/bin/bash
# usage: tools/sweep_seeds.sh <seed> [<seed> ...] : every quick check on the unchanged tree for each seed (evidence/replays into a scratch dir)
cd "$(dirname "$0")/.."
(cd coq && coq_makefile -f _CoqProject -o Makefile > /dev/null && timeout 3400 make -j8 > ../build_setup.log 2>&1; tail -1 ../build_setup.log)
for s in "$@"; do
  export VERIF_SEED=$s VERIF_OUT=$PWD/sweep-out/seed-$s
  for p in C01 C02 C03 C04 C05 C06 C07 C08 C09 C10 C11 C12 C13 C14 C15 C16 C17 C18 C19 C20; do
    ./check $p --tier quick 2>&1 | grep "VIOLATION\|tier=" | cut -c1-250
  done
done
