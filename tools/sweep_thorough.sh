#!/bin/bash
# usage: tools/sweep_thorough.sh <prop> [<prop> ...] : thorough tier of the given checks on the unchanged tree (evidence/replays into a scratch dir)
cd "$(dirname "$0")/.."
(cd coq && coq_makefile -f _CoqProject -o Makefile > /dev/null && timeout 3400 make -j8 > ../build_setup.log 2>&1; tail -1 ../build_setup.log)
export VERIF_OUT=$PWD/sweep-out/thorough
for p in "$@"; do
  /usr/bin/time -f "%e s" ./check $p --tier thorough 2>&1 | grep "VIOLATION\|tier=\| s$" | cut -c1-250
done
